"""E2 — path-sensitive abstract interpreter (typestate over parse() bodies and skeletons).

Input: a list of statements (an interpreter ``parse()`` body or an E1 skeleton).
Output: the list of abstract *exits*, each with the event trace of its path.

No concrete input, no solver.  Child outcomes are the two abstract values ok/fail;
positions are nodes of a version tree; the user stack is a tuple of symbols whose
entry contents are enumerated by the caller; integers are small exact counts.
Helper methods of ParserState / Stack are *inlined from the repository's source*
(depth-bounded); only checkpoint/ok/restore/fail/parse_trivia and the three
context managers are primitive events (adapter table below).
"""

from __future__ import annotations

import ast
from dataclasses import dataclass

from .core import AnalysisError
from .repo import Repo

STATE_REL = "src/pest/state.py"
STACK_REL = "src/pest/stack.py"
CINT_REL = "src/pest/checkpoint_int.py"

MAX_INLINE = 4


# ------------------------------------------------------------------ abstract values
class Rec:
    """A small record of the package (NamedTuple / dataclass without __init__): its fields by name, in order."""

    def __init__(self, cls: str, fields: dict):
        self.cls = cls
        self.fields = fields

    def __repr__(self) -> str:
        return f"{self.cls}({', '.join(f'{k}={v!r}' for k, v in self.fields.items())})"

    def __eq__(self, other: object) -> bool:
        return isinstance(other, Rec) and other.cls == self.cls and other.fields == self.fields

    def __hash__(self) -> int:
        return hash((self.cls, tuple(self.fields)))


class Opq:
    """Opaque value with identity (decisions about it are memoised per path)."""

    _n = 0

    def __init__(self, src: str):
        Opq._n += 1
        self.uid = Opq._n
        self.src = src

    def __repr__(self) -> str:
        return f"?{self.src}"


@dataclass(frozen=True)
class V:
    """A position: node of the version tree."""

    node: int


@dataclass(frozen=True)
class Sym:
    """A symbolic string (user-stack entry, literal ...)."""

    name: str


@dataclass(frozen=True)
class LRef:
    """Reference to a pair list."""

    lid: int


@dataclass(frozen=True)
class PathRef:
    """A location under the parser state, e.g. ``state.user_stack.items``."""

    path: str


@dataclass(frozen=True)
class AList:
    """Immutable abstract list value (stack contents, local copies)."""

    items: tuple


@dataclass(frozen=True)
class ChildRef:
    cid: str  # canonical id, e.g. "self.expression", "self.expressions[1]", "CHILD_0"
    k: int


@dataclass(frozen=True)
class MatchObj:
    """Result of a successful regex match at a position."""

    at: int
    pat: str


@dataclass(frozen=True)
class PairVal:
    start: object
    end: object
    children: object
    rule: object
    tag: object
    input: object


@dataclass(frozen=True)
class Bound:
    recv: object
    name: str


@dataclass(frozen=True)
class Exc:
    cls: str


class _Signal(Exception):
    pass


_NO_RECV = object()  # inline(): a plain function, no receiver parameter


# ------------------------------------------------------------------ state
class St:
    __slots__ = (
        "env", "cur", "aux_dirty", "ckpts", "lists", "stack", "frames", "tags", "atomic", "atomic_saves",
        "neg", "suppress", "trace", "known", "facts", "notes", "tagctx", "hide", "hide_saves",
    )

    def __init__(self) -> None:
        self.env: dict[str, object] = {}
        self.cur = 0
        self.aux_dirty = False
        self.ckpts: tuple = ()
        self.lists: dict[int, tuple] = {}
        self.stack: tuple | None = ()
        self.frames: tuple = ()
        self.tags: tuple = ()
        self.atomic: tuple = ("E", 0)
        self.atomic_saves: tuple = ()
        self.neg = 0
        self.suppress = 0
        self.trace: tuple = ()
        self.known: dict[int, bool] = {}
        self.facts: frozenset = frozenset()
        self.notes: tuple = ()
        self.tagctx: tuple = ()
        self.hide: object = False  # ParserState.hide_pairs (entry value set by the driver)
        self.hide_saves: tuple = ()

    def fork(self) -> "St":
        n = St.__new__(St)
        n.env = dict(self.env)
        n.cur = self.cur
        n.aux_dirty = self.aux_dirty
        n.ckpts = self.ckpts
        n.lists = dict(self.lists)
        n.stack = self.stack
        n.frames = self.frames
        n.tags = self.tags
        n.atomic = self.atomic
        n.atomic_saves = self.atomic_saves
        n.neg = self.neg
        n.suppress = self.suppress
        n.trace = self.trace
        n.known = dict(self.known)
        n.facts = self.facts
        n.notes = self.notes
        n.tagctx = self.tagctx
        n.hide = self.hide
        n.hide_saves = self.hide_saves
        return n

    def ev(self, *e: object) -> None:
        self.trace += (e,)

    def note(self, rule: str, msg: str) -> None:
        self.notes += ((rule, msg),)

    def key(self) -> tuple:
        envk = tuple(sorted((k, _vkey(v)) for k, v in self.env.items()))
        return (
            envk, self.cur, self.aux_dirty, self.ckpts, tuple(sorted(self.lists.items())), self.stack,
            self.frames, self.tags, self.atomic, self.atomic_saves, self.neg, self.suppress, self.trace,
            self.facts, self.notes, self.tagctx, self.hide, self.hide_saves,
        )


def _vkey(v: object) -> object:
    if isinstance(v, Opq):
        return ("opq", v.uid)
    if isinstance(v, (list, dict)):
        return repr(v)
    return v


@dataclass
class Exit:
    kind: str  # 'return' | 'fall' | 'raise'
    value: object  # True/False/None(unknown) or exception class name
    st: St


# ------------------------------------------------------------------ the interpreter
def local_names(fn: ast.FunctionDef) -> frozenset:
    """Names bound by assignment somewhere in ``fn`` (its own scope only), minus parameters."""
    out: set[str] = set()
    declared: set[str] = set()

    def walk(n: ast.AST) -> None:
        for c in ast.iter_child_nodes(n):
            if isinstance(c, (ast.FunctionDef, ast.AsyncFunctionDef, ast.Lambda, ast.ClassDef, ast.ListComp, ast.SetComp, ast.DictComp, ast.GeneratorExp)):
                if isinstance(c, (ast.FunctionDef, ast.AsyncFunctionDef, ast.ClassDef)):
                    out.add(c.name)
                continue
            if isinstance(c, (ast.Global, ast.Nonlocal)):
                declared.update(c.names)
            if isinstance(c, ast.Name) and isinstance(c.ctx, (ast.Store, ast.Del)):
                out.add(c.id)
            walk(c)

    walk(fn)
    params = {a.arg for a in fn.args.args + fn.args.kwonlyargs + fn.args.posonlyargs}
    if fn.args.vararg:
        params.add(fn.args.vararg.arg)
    if fn.args.kwarg:
        params.add(fn.args.kwarg.arg)
    return frozenset(out - declared - params)


class Flow:
    def __init__(
        self,
        repo: Repo,
        *,
        construct: str,
        self_attrs: dict | None = None,
        modconst: dict | None = None,
        unroll: int = 3,
        self_cls: str | None = None,
        template: bool = False,
    ):
        self.repo = repo
        self.construct = construct
        self._pure_inline_failed: dict[str, bool] = {}
        self.self_attrs = self_attrs or {}
        self.modconst = modconst or {}
        self.unroll = unroll
        self.self_cls = self_cls
        self.template = template
        self.nodes: list[tuple] = [(None, "entry", None)]
        self.exits: list[Exit] = []
        self.truncated = 0
        self.nlists = 0
        self.self_opq: dict[str, Opq] = {}
        self.depth = 0
        self.field_cls = _state_field_classes(repo)
        self.paths = 0
        self.free_ok: set[str] = set()

    # ---- version tree
    def newnode(self, parent: int, kind: str, info: object = None) -> int:
        self.nodes.append((parent, kind, info))
        return len(self.nodes) - 1

    def is_anc(self, a: int, b: int | None) -> bool:
        while b is not None:
            if a == b:
                return True
            b = self.nodes[b][0]
        return False

    def path_to(self, n: int | None) -> list[int]:
        out = []
        while n is not None:
            out.append(n)
            n = self.nodes[n][0]
        return list(reversed(out))

    def dirty(self, st: St) -> bool:
        return st.aux_dirty or self.nodes[st.cur][1] == "dirty"

    def newlist(self, st: St, items: tuple = ()) -> LRef:
        self.nlists += 1
        st.lists[self.nlists] = items
        return LRef(self.nlists)

    # ---- errors
    def unsupported(self, what: str) -> AnalysisError:
        return AnalysisError(f"{self.construct}: construct outside the analyser's vocabulary: {what}")

    # =============================================================== expressions
    def ev(self, st: St, node: ast.AST) -> list[tuple[St, object]]:  # noqa: PLR0911, PLR0912, PLR0915
        if isinstance(node, ast.Constant):
            return [(st, node.value)]
        if isinstance(node, ast.Name):
            if node.id in st.env:
                return [(st, st.env[node.id])]
            if node.id in self.modconst:
                return [(st, self.modconst[node.id])]
            if node.id in ("True", "False", "None"):
                return [(st, {"True": True, "False": False, "None": None}[node.id])]
            if self.template and f"__shared_{node.id}" in st.env:
                return [(st, st.env[f"__shared_{node.id}"])]
            if self.template and node.id in getattr(self, "module_lists", ()):
                # a list the emitted code creates at module level: one object for every call (reported where it is
                # handed to a rule function); within one call it behaves like any list
                st = st.fork()
                shared = self.newlist(st)
                st.env[f"__shared_{node.id}"] = shared
                st.note("SHAREDLIST", f"the emitted function uses the module-level list {node.id}: state shared between calls of the generated parser")
                return [(st, shared)]
            if self.template and node.id not in _FREE_OK and node.id not in self.free_ok and not node.id.startswith(("parse_", "CHILD_")):
                st = st.fork()
                st.note("R5", f"name {node.id} read before assignment")
            elif not self.template and node.id in st.env.get("__locals__", ()):
                # a local of the interpreted function that no statement on this path has bound
                st = st.fork()
                st.note("R5", f"local {node.id} read before assignment (UnboundLocalError)")
            return [(st, self.named_opq(node.id))]
        if isinstance(node, ast.Attribute):
            out = []
            for s, base in self.ev(st, node.value):
                if isinstance(base, PathRef) and base.path == "self" and node.attr not in self.self_attrs and self.self_cls:
                    r = self.repo.resolve_method(self.self_cls, node.attr)
                    if r is not None and any(ast.unparse(d).split(".")[-1] in ("property", "cached_property") for d in r[2].decorator_list):
                        # a property of the node itself: its getter, evaluated over the node's own (concrete) attributes
                        res = self.inline(s, r[2], PathRef("self"), [], {}, f"self.{node.attr}", self.repo.mod(r[0]).constants())
                        if any(isinstance(v, Exc) for _, v in res):
                            raise self.unsupported(f"property self.{node.attr} may raise")
                        out.extend(res)
                        continue
                out.append((s, self.getattr(s, base, node.attr, node)))
            return out
        if isinstance(node, ast.NamedExpr):
            out = []
            for s, v in self.ev(st, node.value):
                s.env[node.target.id] = v
                out.append((s, v))
            return out
        if isinstance(node, ast.UnaryOp):
            if isinstance(node.op, ast.Not):
                return [(s, not b) for s, b in self.truth(st, node.operand)]
            out = []
            for s, v in self.ev(st, node.operand):
                if isinstance(v, int) and isinstance(node.op, ast.USub):
                    out.append((s, -v))
                else:
                    out.append((s, Opq(ast.unparse(node))))
            return out
        if isinstance(node, ast.BoolOp):
            return self.boolop(st, node)
        if isinstance(node, ast.Compare):
            return self.compare(st, node)
        if isinstance(node, ast.BinOp):
            out = []
            for s, l in self.ev(st, node.left):
                for s2, r in self.ev(s, node.right):
                    out.append((s2, self.binop(s2, node, self.deref(s2, l), self.deref(s2, r))))
            return out
        if isinstance(node, ast.Call):
            return self.call(st, node)
        if isinstance(node, ast.List):
            if not node.elts:
                st = st.fork()
                return [(st, self.newlist(st))]
            return self.ev_seq(st, node.elts, lambda vals: AList(tuple(vals)))
        if isinstance(node, ast.Tuple):
            return self.ev_seq(st, node.elts, lambda vals: tuple(vals))
        if isinstance(node, ast.Subscript):
            return self.subscript(st, node)
        if isinstance(node, ast.IfExp):
            out = []
            for s, b in self.truth(st, node.test):
                out.extend(self.ev(s, node.body if b else node.orelse))
            return out
        if isinstance(node, ast.JoinedStr):
            return [(st, Opq("fstring"))]
        if isinstance(node, (ast.ListComp, ast.GeneratorExp)) and len(node.generators) == 1 and isinstance(node.generators[0].target, ast.Name):
            # a collection of search results stays one: [s.find(sub, pos) for sub in subs], (hit for hit in hits if ...)
            g = node.generators[0]
            its = self.ev(st, g.iter)
            if len(its) == 1 and not isinstance(its[0][1], Exc):
                s1, itv = its[0]
                itv = self.deref(s1, itv)
                s2 = s1.fork()
                s2.env = dict(s2.env)
                elem = Opq("find") if isinstance(itv, Opq) and getattr(itv, "findlist", False) else Opq("element")
                s2.env[g.target.id] = elem
                try:
                    evs = self.ev(s2, node.elt)
                except AnalysisError:
                    evs = []
                if len(evs) == 1:
                    ev_ = self.deref(evs[0][0], evs[0][1])
                    if (isinstance(ev_, tuple) and ev_ and ev_[0] == "find") or (isinstance(ev_, Opq) and (ev_.src == "find" or getattr(ev_, "findpos", False))):
                        out_v = Opq(ast.unparse(node)[:40])
                        out_v.findlist = True  # type: ignore[attr-defined]
                        return [(s1, out_v)]
            return [(st, Opq(ast.unparse(node)[:40]))]
        if isinstance(node, (ast.Dict, ast.Set, ast.ListComp, ast.GeneratorExp, ast.DictComp, ast.Lambda)):
            return [(st, Opq(ast.unparse(node)[:40]))]
        if isinstance(node, ast.Starred):
            return self.ev(st, node.value)
        if isinstance(node, ast.Slice):
            return [(st, Opq("slice"))]
        raise self.unsupported(f"expression {type(node).__name__}: {ast.unparse(node)[:60]}")

    def ev_seq(self, st: St, elts: list, build) -> list[tuple[St, object]]:
        states: list[tuple[St, list]] = [(st, [])]
        for e in elts:
            nxt = []
            for s, vals in states:
                for s2, v in self.ev(s, e):
                    nxt.append((s2, vals + [v]))
            states = nxt
        return [(s, build(vals)) for s, vals in states]

    def _record_fields(self, name: str) -> list[str] | None:
        ent = self.repo.class_table.get(name)
        if not ent:
            return None
        c = ent[1]
        is_nt = any(ast.unparse(b).split(".")[-1] == "NamedTuple" for b in c.bases)
        is_dc = any(ast.unparse(d).split("(")[0].split(".")[-1] == "dataclass" for d in c.decorator_list)
        if not (is_nt or is_dc) or any(isinstance(n, ast.FunctionDef) and n.name == "__init__" for n in c.body) or self.repo.is_subclass(name, "Expression"):
            return None
        return [n.target.id for n in c.body if isinstance(n, ast.AnnAssign) and isinstance(n.target, ast.Name)]

    def named_opq(self, name: str) -> Opq:
        if name not in self.self_opq:
            self.self_opq[name] = Opq(name)
        return self.self_opq[name]

    def getattr(self, st: St, base: object, attr: str, node: ast.AST) -> object:  # noqa: PLR0911, PLR0912
        if isinstance(base, PathRef):
            p = f"{base.path}.{attr}"
            if base.path == "self":
                if attr in self.self_attrs:
                    return self.self_attrs[attr]
                if self.self_cls:
                    found, val = self.repo.class_const(self.self_cls, attr)  # a class-level constant, through the MRO
                    if found and (isinstance(val, (bool, int, str)) or val is None or (isinstance(val, tuple) and all(isinstance(x, (bool, int, str)) for x in val))):
                        return val
                if self.self_cls and self.repo.resolve_method(self.self_cls, attr):
                    return Bound(base, attr)
                return self.named_opq(p)
            return PathRef(p)
        if isinstance(base, Rec):
            if attr in base.fields:
                return base.fields[attr]
            raise self.unsupported(f"attribute {ast.unparse(node)} of the record {base.cls} (only its fields are modelled)")
        if isinstance(base, MatchObj) and attr == "end":
            return Bound(base, "end")
        if isinstance(base, (LRef, AList, str, Sym, ChildRef, Opq, Bound, tuple)) or base is None:
            return Bound(base, attr)
        if isinstance(base, (int, bool)):
            return Bound(base, attr)
        raise self.unsupported(f"attribute {ast.unparse(node)} on {base!r}")

    def deref(self, st: St, v: object) -> object:  # noqa: PLR0911
        """Value stored at a tracked location."""
        if not isinstance(v, PathRef):
            return v
        p = v.path
        if p == "state.pos":
            return V(st.cur)
        if p == "state.user_stack.items":
            return AList(st.stack) if st.stack is not None else self.named_opq(p)
        if p == "state.rule_stack.items":
            return AList(st.frames)
        if p == "state.tag_stack":
            return AList(st.tags)
        if p == "state.atomic_depth":
            return ("atomic",) + st.atomic
        if p == "state.neg_pred_depth":
            return st.neg
        if p == "state.hide_pairs":
            return st.hide
        if p == "state.input":
            return Sym("INPUT")
        if p in OBJECT_PATHS:
            return v
        return Opq(p)

    def boolop(self, st: St, node: ast.BoolOp) -> list[tuple[St, object]]:
        is_and = isinstance(node.op, ast.And)
        results: list[tuple[St, object]] = []
        pend = [st]
        for i, v in enumerate(node.values):
            last = i == len(node.values) - 1
            nxt = []
            for s in pend:
                for s2, b in self.truth(s, v):
                    if last:
                        results.append((s2, b))
                    elif is_and and not b:
                        results.append((s2, False))
                    elif not is_and and b:
                        results.append((s2, True))
                    else:
                        nxt.append(s2)
            pend = nxt
        return results

    def binop(self, st: St, node: ast.BinOp, l: object, r: object) -> object:
        if isinstance(l, int) and isinstance(r, int) and not isinstance(l, bool):
            try:
                return {
                    ast.Add: l + r, ast.Sub: l - r, ast.BitAnd: l & r, ast.BitOr: l | r, ast.Mult: l * r,
                }[type(node.op)]
            except KeyError:
                return Opq(ast.unparse(node))
        if isinstance(l, V) and isinstance(node.op, ast.Add):
            return self.advance_value(st, l, node.right, r)
        return Opq(ast.unparse(node))

    def compare(self, st: St, node: ast.Compare) -> list[tuple[St, object]]:
        if len(node.ops) != 1:
            return [(st, Opq(ast.unparse(node)))]
        op = node.ops[0]
        out = []
        for s, l0 in self.ev(st, node.left):
            for s2, r0 in self.ev(s, node.comparators[0]):
                l, r = self.deref(s2, l0), self.deref(s2, r0)
                out.extend(self.cmp(s2, op, l, r, node))
        return out

    def cmp(self, st: St, op: ast.cmpop, l: object, r: object, node: ast.AST) -> list[tuple[St, object]]:  # noqa: PLR0911, PLR0912
        # atomic depth comparisons
        if isinstance(l, tuple) and l and l[0] == "atomic" and isinstance(r, int):
            base, delta = l[1], l[2]
            if isinstance(op, ast.Gt) and r == 0:
                if base == "Z":
                    return [(st, delta > 0)]
                if delta > 0:
                    return [(st, True)]
                res = []
                for s2, b in self.decide(st, self.named_opq("entry.atomic_depth>0")):
                    if not any(e[0] == "ATOMQ" for e in s2.trace):
                        s2.ev("ATOMQ", b)
                    res.append((s2, b))
                return res
            return [(st, Opq(ast.unparse(node)))]
        # position bound checks
        if isinstance(l, V) and isinstance(r, tuple) and r and r[0] == "len_input":
            if isinstance(op, ast.Lt):
                out = []
                a = st.fork()
                a.facts |= {("inbounds", l.node)}
                out.append((a, True))
                out.append((st.fork(), False))
                return out
            if isinstance(op, (ast.Eq, ast.NotEq)):
                return [(st.fork(), True), (st.fork(), False)]
        if isinstance(l, V) and isinstance(r, int) and isinstance(op, (ast.Eq, ast.NotEq)):
            a = st.fork()
            a.ev("ABSPOS", r)
            b = st.fork()
            b.ev("ABSPOS", r)
            return [(a, True), (b, False)]
        if isinstance(op, (ast.Is, ast.IsNot)) and (l is None or r is None):
            other = l if r is None else r
            if isinstance(other, Opq):
                res = []
                for s, b in self.decide(st, other, key_is_none=True):
                    res.append((s, b if isinstance(op, ast.Is) else not b))
                return res
            isnone = other is None
            return [(st, isnone if isinstance(op, ast.Is) else not isnone)]
        conc = (int, str, bool, type(None), tuple, frozenset)
        if isinstance(l, conc) and isinstance(r, conc) and not _has_abs(l) and not _has_abs(r):
            try:
                res = {
                    ast.Eq: lambda: l == r, ast.NotEq: lambda: l != r, ast.Lt: lambda: l < r, ast.LtE: lambda: l <= r,
                    ast.Gt: lambda: l > r, ast.GtE: lambda: l >= r, ast.In: lambda: l in r, ast.NotIn: lambda: l not in r,
                }[type(op)]()
                return [(st, bool(res))]
            except (KeyError, TypeError):
                pass
        if isinstance(op, (ast.In, ast.NotIn)) and isinstance(r, tuple) and not _has_abs(r) and isinstance(l, Opq):
            return self.decide(st, Opq(ast.unparse(node)))
        return [(st, Opq(ast.unparse(node)))]

    # ---- truthiness with forking
    def decide(self, st: St, o: Opq, key_is_none: bool = False) -> list[tuple[St, bool]]:
        uid = -o.uid if key_is_none else o.uid
        if uid in st.known:
            return [(st, st.known[uid])]
        a, b = st.fork(), st.fork()
        a.known[uid] = True
        b.known[uid] = False
        if key_is_none:
            # value is None  <=> value is falsy (for the Optional[...] values this code uses)
            a.known[o.uid] = False
        return [(a, True), (b, False)]

    def truth(self, st: St, node: ast.AST) -> list[tuple[St, bool]]:
        out = []
        for s, v in self.ev(st, node):
            out.extend(self.truth_of(s, v, node))
        return out

    def truth_of(self, st: St, v: object, node: ast.AST | None = None) -> list[tuple[St, bool]]:  # noqa: PLR0911
        v = self.deref(st, v)
        if isinstance(v, Opq):
            if hasattr(v, "childref") and v.uid not in st.known:
                res = []
                for s2, b in self.decide(st, v):
                    s2.ev("RULEQ", v.childref.cid, b)
                    res.append((s2, b))
                return res
            return self.decide(st, v)
        if isinstance(v, AList):
            return [(st, bool(v.items))]
        if isinstance(v, LRef):
            return [(st, bool(st.lists.get(v.lid)))]
        if isinstance(v, (MatchObj, ChildRef, PathRef, Sym, V, PairVal, Bound, Rec)):
            return [(st, True)]
        if isinstance(v, tuple) and v and v[0] == "atomic":
            return self.cmp(st, ast.Gt(), v, 0, node or ast.Constant(0))
        return [(st, bool(v))]

    # =============================================================== subscripts
    def subscript(self, st: St, node: ast.Subscript) -> list[tuple[St, object]]:  # noqa: PLR0912
        out = []
        for s, base0 in self.ev(st, node.value):
            base = self.deref(s, base0)
            if isinstance(node.slice, ast.Slice):
                lo = hi = None
                states = [(s, None, None)]
                if node.slice.lower is not None:
                    states = [(s2, self.deref(s2, v), None) for s2, v in self.ev(s, node.slice.lower)]
                if node.slice.upper is not None:
                    states = [(s3, lo_, self.deref(s3, v)) for s2, lo_, _ in states for s3, v in self.ev(s2, node.slice.upper)]
                for s2, lo, hi in states:
                    if isinstance(base, PathRef) and base.path in ("state.user_stack", "state.rule_stack"):
                        out.extend(self.inline_method(s2, base, "__getitem__", [("slice", lo, hi)], node))
                    elif isinstance(base, AList) and all(x is None or isinstance(x, int) for x in (lo, hi)):
                        out.append((s2, AList(base.items[lo:hi])))
                    elif isinstance(base, Sym) and base.name == "INPUT":
                        s2.ev("INSLICE", _posdesc(lo), _posdesc(hi))
                        out.append((s2, ("input_slice", lo, hi)))
                    else:
                        out.append((s2, Opq(ast.unparse(node))))
                continue
            for s2, idx0 in self.ev(s, node.slice):
                idx = self.deref(s2, idx0)
                if isinstance(base, AList):
                    if isinstance(idx, int):
                        try:
                            out.append((s2, base.items[idx]))
                        except IndexError:
                            out.append((s2, Exc("IndexError")))
                    elif isinstance(idx, tuple) and idx and idx[0] == "slice":
                        lo, hi = idx[1], idx[2]
                        if all(x is None or isinstance(x, int) for x in (lo, hi)):
                            out.append((s2, AList(base.items[lo:hi])))
                        else:
                            out.append((s2, AList(base.items)))
                    else:
                        out.append((s2, Opq(ast.unparse(node))))
                elif isinstance(base, PathRef) and base.path == "state.parser.rules":
                    out.append((s2, ChildRef(f"rules[{ast.unparse(node.slice)}]", 0)))
                elif isinstance(base, (tuple, str)) and isinstance(idx, int) and not _has_abs(base):
                    try:
                        out.append((s2, base[idx]))
                    except IndexError:
                        out.append((s2, Exc("IndexError")))
                elif isinstance(base, PathRef) and base.path in ("state.user_stack", "state.rule_stack"):
                    # Stack.__getitem__ -> inline
                    out.extend(self.inline_method(s2, base, "__getitem__", [idx], node))
                else:
                    out.append((s2, Opq(ast.unparse(node))))
        return out

    # =============================================================== position arithmetic
    def advance_value(self, st: St, base: V, rnode: ast.AST, r: object) -> object:
        """``pos + <something>``: a new position node justified by a match fact."""
        how = None
        desc = ast.unparse(rnode)
        if isinstance(r, tuple) and r and r[0] == "len":
            sym = r[1]
            if ("match", base.node, sym) in st.facts or ("rematch", base.node) in st.facts:
                how = ("len", sym)
            else:
                st.note("POS", f"advance by len({_symdesc(sym)}) without a successful match of it at this position")
                how = ("unjustified", desc)
        elif isinstance(r, int) and not isinstance(r, bool):
            lits = [f[2] for f in st.facts if f[0] == "match" and f[1] == base.node and isinstance(f[2], str)]
            if r == 1 and ("inbounds", base.node) in st.facts:
                how = ("one",)
            elif any(len(x) == r for x in lits):
                how = ("len", r)
            elif ("rematch", base.node) in st.facts:
                how = ("len", r)
            else:
                st.note("POS", f"advance by {r} not justified by a matched literal of that length / bounds check")
                how = ("unjustified", desc)
        elif isinstance(r, Opq) and (("rematch", base.node) in st.facts or any(f[0] == "match" and f[1] == base.node for f in st.facts)):
            how = ("opaque", desc)
            import re as _re

            if _re.fullmatch(r"__h_len_\w+__|len\([\w.\[\]]+\)", r.src):
                how = ("len", desc)
            else:
                st.note("POS", f"advance by {desc}: not the length of what was matched")
        else:
            st.note("POS", f"advance by {desc} not justified by a match at this position")
            how = ("unjustified", desc)
        return V(self.newnode(base.node, "term", how))

    # =============================================================== calls
    def call(self, st: St, node: ast.Call) -> list[tuple[St, object]]:  # noqa: PLR0911, PLR0912, PLR0915
        fn = node.func
        # --- plain-name calls
        if isinstance(fn, ast.Name) and fn.id not in st.env:
            name = fn.id
            if name == "parse_trivia":
                return self.with_args(st, node, lambda s, a, k: self.trivia(s, a[1] if len(a) > 1 else None))
            if name.startswith("CHILD_") or name.startswith("parse_"):
                k = int(name[6:]) if name.startswith("CHILD_") else 0
                return self.with_args(st, node, lambda s, a, kw: self.child(s, ChildRef(name, k), a[1] if len(a) > 1 else None, a[0] if a else None))
            if name == "len":
                return self.with_args(st, node, lambda s, a, kw: [(s, self.len_of(s, a[0], node))])
            if name == "reversed":
                return self.with_args(st, node, lambda s, a, kw: [(s, self.reversed_of(s, a[0]))])
            if name == "enumerate":
                return self.with_args(st, node, lambda s, a, kw: [(s, self.enumerate_of(s, a[0]))])
            if name == "iter":
                return self.with_args(st, node, lambda s, a, kw: [(s, self.deref(s, a[0]))])
            if name == "list":
                return self.with_args(st, node, lambda s, a, kw: [(s, self.deref(s, a[0]) if a else AList(()))])
            if name == "slice":
                return self.with_args(st, node, lambda s, a, kw: [(s, ("slice", self.deref(s, a[0]), self.deref(s, a[1])) if len(a) == 2 else Opq("slice"))])
            if name == "isinstance":
                return self.with_args(st, node, lambda s, a, kw: [(s, self.isinstance_of(s, a[0], node))])
            if name == "suppress":
                return [(st, ("suppress", tuple(ast.unparse(a) for a in node.args)))]
            if name == "Pair":
                return self.with_args(st, node, self.make_pair)
            if name in ("max", "min"):
                def pick(s, a, kw):  # noqa: ANN001, ANN202
                    vals = [self.deref(s, x) for x in a]
                    if len(vals) == 1 and isinstance(vals[0], Opq) and getattr(vals[0], "findlist", False):
                        # min / max over a collection of search results, with len(input) (or another result) as the default
                        d = self.deref(s, kw["default"]) if "default" in kw else None
                        d_ok = d is None or (isinstance(d, tuple) and d and d[0] in ("len_input", "find")) or (isinstance(d, Opq) and (d.src == "find" or getattr(d, "findpos", False)))
                        if d_ok:
                            r = Opq("find")
                            r.findpos = True  # type: ignore[attr-defined]
                            return [(s, r)]
                    if vals and all((isinstance(v, tuple) and v and v[0] == "find") or (isinstance(v, Opq) and (v.src == "find" or getattr(v, "findpos", False))) for v in vals):
                        return [(s, Opq("find"))]  # the smaller/larger of two search results is a search result
                    return [(s, Opq(ast.unparse(node)[:40]))]

                return self.with_args(st, node, pick)
            rec_fields = self._record_fields(name)
            if rec_fields is not None and name not in st.env:
                def mk(s, a, kw, rec_fields=rec_fields, name=name):  # noqa: ANN001, ANN202
                    if len(a) > len(rec_fields) or any(k not in rec_fields for k in (kw or {})):
                        raise self.unsupported(f"{name}() takes {rec_fields}")
                    vals = dict(zip(rec_fields, a))
                    vals.update(kw or {})
                    if len(vals) != len(rec_fields):
                        raise self.unsupported(f"{name}() with defaults")
                    return [(s, Rec(name, {k: vals[k] for k in rec_fields}))]

                return self.with_args(st, node, mk)
            if name == "bool" and len(node.args) == 1 and not node.keywords:
                return [(s, b) for s, b in self.truth(st, node.args[0])]  # the truth of its argument, as a branch sees it
            if name in ("str", "repr", "int", "bool", "max", "min", "range", "zip", "sorted", "any", "all", "print", "tuple", "type"):
                return self.with_args(st, node, lambda s, a, kw: [(s, Opq(ast.unparse(node)[:40]))])
            if name in ("ValueError", "IndexError", "RuntimeError", "KeyError", "TypeError", "AssertionError", "Exception"):
                return [(st, Exc(name))]
            return self.with_args(st, node, lambda s, a, kw: self.unknown_call(s, name, a, node, kw))
        # --- attribute / value calls
        out = []
        for s, f in self.ev(st, fn):
            out.extend(self.with_args(s, node, lambda s2, a, kw, f=f: self.apply(s2, f, a, kw, node)))
        return out

    def with_args(self, st: St, node: ast.Call, k) -> list[tuple[St, object]]:
        states: list[tuple[St, list]] = [(st, [])]
        for a in node.args:
            nxt = []
            for s, vals in states:
                for s2, v in self.ev(s, a):
                    nxt.append((s2, vals + [v]))
            states = nxt
        kstates: list[tuple[St, list, dict]] = [(s, v, {}) for s, v in states]
        for kw in node.keywords:
            nxt2 = []
            for s, vals, kws in kstates:
                for s2, v in self.ev(s, kw.value):
                    d = dict(kws)
                    d[kw.arg or "**"] = v
                    nxt2.append((s2, vals, d))
            kstates = nxt2
        out = []
        for s, vals, kws in kstates:
            if any(isinstance(v, Exc) for v in vals):
                out.append((s, next(v for v in vals if isinstance(v, Exc))))
                continue
            out.extend(k(s, vals, kws))
        return out

    def unknown_call(self, st: St, name: str, args: list, node: ast.Call, kw: dict | None = None) -> list[tuple[St, object]]:
        touches = any(isinstance(a, (PathRef, LRef)) for a in args)
        if self.template and name in getattr(self, "template_helpers", {}):
            # a helper function the generator emits next to the one under analysis (def _implicit(rule, state, pairs))
            return self.inline(st, self.template_helpers[name], _NO_RECV, args, kw or {}, name, {})
        if touches and not self.template:
            # a module-level helper of the file under analysis that is handed the state or a pair list: inlined
            rel = self.construct.split("::")[0]
            fn = self.repo.mod(rel).functions().get(name) if rel in self.repo.py_files else None
            if fn is not None:
                return self.inline(st, fn, _NO_RECV, args, kw or {}, name, self.repo.mod(rel).constants())
            # ... or one imported from another module of the package (`from ..expression import match_regex`)
            imp = self.repo.imports(rel).get(name) if rel in self.repo.py_files else None
            if imp is not None:
                tail = imp[0].lstrip(".").replace(".", "/")
                for other in self.repo.py_files:
                    stem = other[:-3]
                    if other != rel and (not tail or stem.endswith("/" + tail) or stem.endswith("/" + tail + "/__init__") or stem == tail):
                        fn = self.repo.mod(other).functions().get(imp[1])
                        if fn is not None:
                            return self.inline(st, fn, _NO_RECV, args, kw or {}, name, self.repo.mod(other).constants())
        if any(isinstance(a, PathRef) and a.path in ("state", "state.user_stack", "state.rule_stack", "state.tag_stack", "state.atomic_depth") for a in args):
            raise self.unsupported(f"call {name}(...) receives the parser state")
        if any(isinstance(a, LRef) for a in args) and name not in ("len", "list", "tuple", "iter", "reversed", "enumerate", "bool", "Pairs", "print", "repr", "str", "id"):
            # a pair list handed to a function this analysis cannot follow: what it appends or removes would be lost
            raise self.unsupported(f"call {name}(...) receives a pair list and cannot be followed")
        return [(st, Opq(ast.unparse(node)[:40]))]

    def isinstance_of(self, st: St, v: object, node: ast.Call) -> object:
        if isinstance(v, ChildRef) or (isinstance(v, Opq) and "expression" in v.src):
            st.ev("SHAPE", ast.unparse(node))
        return Opq(ast.unparse(node))

    def len_of(self, st: St, v: object, node: ast.AST) -> object:
        v = self.deref(st, v)
        if isinstance(v, AList):
            return len(v.items)
        if isinstance(v, PathRef) and v.path in ("state.user_stack", "state.rule_stack"):
            r = self.inline_method(st, v, "__len__", [], node)
            if len(r) == 1:
                return r[0][1]
        if isinstance(v, LRef):
            return Opq("len(pairs)")
        if isinstance(v, Sym) and v.name == "INPUT":
            return ("len_input",)
        if isinstance(v, (Sym, str)):
            return ("len", v)
        if isinstance(v, Opq):
            return ("len", v)
        return Opq(ast.unparse(node))

    def reversed_of(self, st: St, v: object) -> object:
        v = self.iterable(st, v)
        if isinstance(v, AList):
            return AList(tuple(reversed(v.items)))
        return Opq("reversed")

    def enumerate_of(self, st: St, v: object) -> object:
        v = self.iterable(st, v)
        if isinstance(v, AList):
            return AList(tuple((i, x) for i, x in enumerate(v.items)))
        return Opq("enumerate")

    def iterable(self, st: St, v: object) -> object:
        v = self.deref(st, v)
        if isinstance(v, PathRef) and v.path in ("state.user_stack", "state.rule_stack"):
            # Sequence protocol of Stack: __iter__/__reversed__ go through items (checked: __iter__ returns iter(self.items))
            m = self.repo.method_or_none(STACK_REL, "Stack", "__iter__")
            if m is None or ast.unparse(m.body[-1]) != "return iter(self.items)":
                raise self.unsupported("Stack.__iter__ is not 'return iter(self.items)'")
            return self.deref(st, PathRef(v.path + ".items"))
        return v

    def make_pair(self, st: St, args: list, kw: dict) -> list[tuple[St, object]]:
        sig = ["input_", "start", "end", "rule", "children", "tag"]
        init = self.repo.method_or_none("src/pest/pairs.py", "Pair", "__init__")
        if init is not None:
            sig = [a.arg for a in init.args.args][1:]
        vals = dict(zip(sig, args, strict=False))
        vals.update(kw)
        ch = vals.get("children")
        ch_items: object = None
        if isinstance(ch, LRef):
            ch_items = ("list", st.lists.get(ch.lid, ()))
        elif isinstance(ch, AList) and not ch.items:
            ch_items = ("empty",)
        elif ch is None:
            ch_items = ("empty",)
        else:
            ch_items = ("unknown", repr(ch))
        return [(
            st,
            PairVal(
                self.deref(st, vals.get("start")), self.deref(st, vals.get("end")), ch_items,
                vals.get("rule"), vals.get("tag"), self.deref(st, vals.get("input_")),
            ),
        )]

    # ---- method application
    def apply(self, st: St, f: object, args: list, kw: dict, node: ast.Call) -> list[tuple[St, object]]:  # noqa: PLR0911, PLR0912, PLR0915
        if isinstance(f, Exc):
            return [(st, f)]
        if isinstance(f, PathRef):
            # method on a state-rooted object: split receiver / name
            recv, _, name = f.path.rpartition(".")
            return self.state_method(st, PathRef(recv), name, args, kw, node)
        if isinstance(f, Bound):
            recv, name = f.recv, f.name
            if isinstance(recv, MatchObj) and name == "end":
                return [(st, ("match_end", recv))]
            if isinstance(recv, LRef):
                return self.list_method(st, recv, name, args, node)
            if isinstance(recv, AList):
                if name == "pop" and not recv.items:
                    return [(st, Exc("IndexError"))]
                return [(st, Opq(ast.unparse(node)[:40]))]
            if isinstance(recv, Sym) and recv.name == "INPUT":
                return self.input_method(st, name, args, node)
            if isinstance(recv, tuple) and recv and recv[0] == "input_slice" and name == "startswith" and len(args) == 1 and isinstance(recv[1], V):
                # input[pos:].startswith(x)  ==  input.startswith(x, pos)
                return self.input_method(st, name, [args[0], recv[1]], node)
            if name == "parse" and len(args) == 2 and isinstance(args[0], PathRef) and args[0].path == "state":
                text = ast.unparse(node.func.value) if isinstance(node.func, ast.Attribute) else "?"
                if isinstance(recv, Opq) and "rules" in recv.src and any(k in recv.src for k in ("WHITESPACE", "COMMENT", "SKIP")):
                    # a rule looked up by name keeps that identity through renames, helper parameters and loops
                    text = recv.src
                cid = recv if isinstance(recv, ChildRef) else ChildRef(text, 0)
                return self.child(st, cid, args[1], args[0])
            if name == "match" and len(args) == 2 and isinstance(self.deref(st, args[0]), Sym):
                return self.regex_match(st, recv, self.deref(st, args[1]), node)
            if isinstance(recv, PathRef) and recv.path == "self":
                return self.inline_self_method(st, name, args, kw, node)
            if any(isinstance(a, PathRef) and a.path == "state" for a in args):
                raise self.unsupported(f"call {ast.unparse(node.func)} receives the parser state")
            if isinstance(recv, Sym) and name == "find":
                return [(st, Opq("find"))]
            return [(st, Opq(ast.unparse(node)[:40]))]
        if isinstance(f, Opq):
            if self.template and (f.src.startswith("parse_") or f.src.startswith("CHILD_")) and f.src != "parse_trivia" and len(args) >= 2:
                # a rule function reached through a variable (for rule in (parse_WHITESPACE, parse_COMMENT): rule(state, xs))
                k = int(f.src[6:]) if f.src.startswith("CHILD_") and f.src[6:].isdigit() else 0
                return self.child(st, ChildRef(f.src, k), args[1], args[0])
            if any(isinstance(a, PathRef) and a.path == "state" for a in args):
                raise self.unsupported(f"call {ast.unparse(node.func)} receives the parser state")
            return [(st, Opq(ast.unparse(node)[:40]))]
        raise self.unsupported(f"call of {f!r}: {ast.unparse(node)[:60]}")

    def regex_match(self, st: St, recv: object, pos: object, node: ast.Call) -> list[tuple[St, object]]:
        if not isinstance(pos, V):
            st.note("POS", f"pattern matched at a non-position {ast.unparse(node.args[1])}")
            pos = V(st.cur)
        pat = ast.unparse(node.func.value) if isinstance(node.func, ast.Attribute) else "?"
        a = st.fork()
        a.facts |= {("rematch", pos.node)}
        a.ev("MATCH", "re:" + pat, True)
        b = st.fork()
        b.ev("MATCH", "re:" + pat, False)
        return [(a, MatchObj(pos.node, pat)), (b, None)]

    def input_method(self, st: St, name: str, args: list, node: ast.Call) -> list[tuple[St, object]]:
        if name == "startswith":
            args = [a for a in args]
            if len(args) != 2:
                st.note("POS", f"input.startswith without an explicit position: {ast.unparse(node)}")
                return [(st.fork(), True), (st.fork(), False)]
            what, pos = self.deref(st, args[0]), self.deref(st, args[1])
            if not isinstance(pos, V):
                st.note("POS", f"input.startswith at a non-position {ast.unparse(node.args[1])}")
                pos = V(st.cur)
            if what is None:
                return [(st, Exc("TypeError"))]
            a = st.fork()
            a.facts |= {("match", pos.node, what if isinstance(what, (Sym, str)) else ("v", repr(what)))}
            a.ev("MATCH", _symdesc(what), True, pos.node)
            b = st.fork()
            b.ev("MATCH", _symdesc(what), False, pos.node)
            return [(a, True), (b, False)]
        if name == "find":
            pos = self.deref(st, args[1]) if len(args) > 1 else None
            if not isinstance(pos, V):
                st.note("POS", f"input.find without a position argument: {ast.unparse(node)}")
            o = Opq("find")
            return [(st, ("find", o, pos.node if isinstance(pos, V) else st.cur))]
        st.note("POS", f"input accessed through .{name}()")
        return [(st, Opq(ast.unparse(node)[:40]))]

    def list_method(self, st: St, recv: LRef, name: str, args: list, node: ast.Call) -> list[tuple[St, object]]:
        st = st.fork()
        cur = st.lists.get(recv.lid, ())
        if name == "extend":
            src = args[0]
            if isinstance(src, LRef):
                add = st.lists.get(src.lid, ())
            elif isinstance(src, AList) and not src.items:
                add = ()
            elif isinstance(src, AList) and all(isinstance(x, PairVal) for x in src.items):
                # pairs.extend([Pair(...)]): a list display of freshly built pairs adds exactly those pairs
                add = tuple(("P", x) for x in src.items)
                for _ in src.items:
                    st.ev("PAIR", recv.lid)
                st.lists[recv.lid] = cur + add
                return [(st, None)]
            else:
                add = (("U", ast.unparse(node.args[0])),)
            st.lists[recv.lid] = cur + add
            st.ev("EXT", recv.lid, src.lid if isinstance(src, LRef) else None)
            return [(st, None)]
        if name == "append":
            v = args[0]
            if isinstance(v, PairVal):
                st.lists[recv.lid] = cur + (("P", v),)
                st.ev("PAIR", recv.lid)
            else:
                st.lists[recv.lid] = cur + (("U", ast.unparse(node.args[0])),)
            return [(st, None)]
        if name == "clear":
            st.lists[recv.lid] = ()
            st.ev("CLR", recv.lid)
            return [(st, None)]
        if name == "copy":
            return [(st, self.newlist(st, cur))]
        if name == "pop":
            if not cur:
                return [(st, Exc("IndexError"))]
            st.lists[recv.lid] = cur[:-1]
            return [(st, Opq("popped pair"))]
        raise self.unsupported(f"pair-list method .{name}()")

    # ---- state-rooted methods
    def state_method(self, st: St, recv: PathRef, name: str, args: list, kw: dict, node: ast.Call) -> list[tuple[St, object]]:  # noqa: PLR0911, PLR0912, PLR0915
        p = recv.path
        if p == "state":
            if name == "checkpoint":
                st = st.fork()
                st.ckpts += ((st.cur, st.aux_dirty, st.stack, st.frames, st.atomic),)
                st.ev("CKPT")
                return [(st, None)]
            if name == "ok":
                st = st.fork()
                if not st.ckpts:
                    st.note("R1", "ok() without an open checkpoint")
                else:
                    st.ckpts = st.ckpts[:-1]
                st.ev("OK")
                return [(st, None)]
            if name == "restore":
                st = st.fork()
                if not st.ckpts:
                    st.note("R1", "restore() without an open checkpoint")
                else:
                    st.cur, st.aux_dirty, st.stack, st.frames, st.atomic = st.ckpts[-1]
                    st.ckpts = st.ckpts[:-1]
                st.ev("RESTORE")
                return [(st, None)]
            if name == "parse_trivia":
                return self.trivia(st, args[0] if args else None)
            if name == "fail":
                st = st.fork()
                label = self.deref(st, args[0]) if args else None
                if label is None:
                    st.note("FAILLABEL", "state.fail called with a None label")
                if "pos" in kw:
                    st.note("FAILPOS", "state.fail called with an explicit pos")
                st.ev("FAIL", _symdesc(label), "force" if kw.get("force") is True else "")
                return [(st, None)]
            if name in ("atomic_checkpoint", "suppress_failures", "tag"):
                return [(st, ("ctx", name, tuple(args)))]
            return self.inline_method(st, recv, name, args, node, kw)
        if p == "state.atomic_depth":
            st = st.fork()
            if name == "zero":
                st.atomic = ("Z", 0)
                st.ev("ATOM", "zero")
                return [(st, None)]
            raise self.unsupported(f"atomic_depth.{name}()")
        if p == "state.tag_stack":
            st = st.fork()
            if name == "pop":
                if not st.tags:
                    return [(st, Exc("IndexError"))]
                t = st.tags[-1]
                st.tags = st.tags[:-1]
                st.ev("TAGPOP", t)
                return [(st, ("tag", t))]
            if name == "append":
                st.tags += (("pushed", _symdesc(args[0])),)
                st.ev("TAGPUSH", _symdesc(args[0]))
                return [(st, None)]
            raise self.unsupported(f"tag_stack.{name}()")
        if p in ("state.user_stack", "state.rule_stack"):
            if name in ("snapshot", "restore", "drop_snapshot"):
                st = st.fork()
                st.note("RAWSNAP", f"{p}.{name}() called outside ParserState.checkpoint/ok/restore")
                return [(st, None)]
            return self.inline_method(st, recv, name, args, node, kw)
        if p in ("state.user_stack.items", "state.rule_stack.items"):
            return self.items_method(st, p, name, args, node)
        if p == "state.input":
            return self.input_method(st, name, args, node)
        if p == "state.parser.rules" and name == "get":
            o = Opq(f"rules.get({_symdesc(args[0]) if args else ''})")
            o.childref = ChildRef(f"rules[{_symdesc(args[0]) if args else ''}]", 0)  # type: ignore[attr-defined]
            return [(st, o)]
        if p.startswith("state.") and p.count(".") >= 1:
            # untracked field (popped, lengths, furthest_* ...): reads opaque, writes ignored
            return [(st, Opq(f"{p}.{name}()"))]
        raise self.unsupported(f"method {p}.{name}()")

    def items_method(self, st: St, p: str, name: str, args: list, node: ast.Call) -> list[tuple[St, object]]:
        st = st.fork()
        which = "stack" if p.startswith("state.user_stack") else "frames"
        cur = getattr(st, which)
        ev = "S" if which == "stack" else "F"
        if cur is None:
            if name == "append":
                st.ev(ev + "PUSH", _symdesc(self.deref(st, args[0])))
                return [(st, None)]
            if name == "pop":
                st.ev(ev + "POP", "?")
                return [(st, Opq("stack item"))]
            if name == "clear":
                st.ev(ev + "CLEAR", "?")
                return [(st, None)]
            raise self.unsupported(f"{p}.{name}() on a stack of unknown contents")
        if name == "append":
            setattr(st, which, cur + (self.deref(st, args[0]),))
            st.ev(ev + "PUSH", _symdesc(self.deref(st, args[0])))
            return [(st, None)]
        if name == "pop":
            if args:
                raise self.unsupported("items.pop(i)")
            if not cur:
                return [(st, Exc("IndexError"))]
            setattr(st, which, cur[:-1])
            st.ev(ev + "POP", _symdesc(cur[-1]))
            return [(st, cur[-1])]
        if name == "clear":
            setattr(st, which, ())
            st.ev(ev + "CLEAR", len(cur))
            return [(st, None)]
        if name == "extend":
            st.note("STACK", f"{p}.extend outside Stack.restore")
            return [(st, None)]
        if name == "copy":
            return [(st, AList(cur))]
        raise self.unsupported(f"{p}.{name}()")

    # ---- inlining of repository helpers
    def inline_method(self, st: St, recv: PathRef, name: str, args: list, node: ast.AST, kw: dict | None = None) -> list[tuple[St, object]]:
        cls_rel = self.field_cls.get(recv.path)
        if cls_rel is None:
            raise self.unsupported(f"method {recv.path}.{name}() on a receiver of unknown class")
        rel, cls = cls_rel
        r = self.repo.resolve_method(cls, name)
        if r is None:
            raise self.unsupported(f"{cls}.{name} not found")
        return self.inline(st, r[2], recv, args, kw or {}, f"{cls}.{name}", self.repo.mod(r[0]).constants())

    def inline_self_method(self, st: St, name: str, args: list, kw: dict, node: ast.Call) -> list[tuple[St, object]]:
        if not self.self_cls:
            return [(st, Opq(ast.unparse(node)[:40]))]
        r = self.repo.resolve_method(self.self_cls, name)
        if r is None:
            return [(st, Opq(ast.unparse(node)[:40]))]
        touches_state = any(isinstance(a, (PathRef, LRef)) for a in args)
        if not touches_state:
            # a pure helper over the node's own (concrete) attributes: evaluated when the model can, opaque otherwise
            if name not in ("children", "with_children", "tag_str", "__str__") and not self._pure_inline_failed.get(name):
                try:
                    res = self.inline(st, r[2], PathRef("self"), args, kw, f"self.{name}", self.repo.mod(r[0]).constants())
                    if all(not isinstance(v, (Opq, Exc)) for _, v in res):
                        return res
                except AnalysisError:
                    pass
                self._pure_inline_failed[name] = True
            return [(st, self.named_opq(f"self.{name}()"))]
        return self.inline(st, r[2], PathRef("self"), args, kw, f"self.{name}", self.repo.mod(r[0]).constants())

    def inline(self, st: St, fn: ast.FunctionDef, recv: object, args: list, kw: dict, label: str, modconst: dict) -> list[tuple[St, object]]:
        if self.depth >= MAX_INLINE:
            raise self.unsupported(f"helper inlining deeper than {MAX_INLINE} at {label}")
        if any(isinstance(d, ast.Name) and d.id == "contextmanager" for d in fn.decorator_list):
            raise self.unsupported(f"context manager {label} used as a plain call")
        names = [a.arg for a in fn.args.args]
        defaults = fn.args.defaults
        env: dict[str, object] = {}
        if recv is _NO_RECV:
            pos = names
        else:
            env[names[0]] = recv
            pos = names[1:]
        for i, n in enumerate(pos):
            if i < len(args):
                env[n] = args[i]
            elif n in kw:
                env[n] = kw[n]
            else:
                di = i - (len(pos) - len(defaults))
                if di >= 0:
                    env[n] = _const_default(defaults[di])
                else:
                    raise self.unsupported(f"missing argument {n} for {label}")
        for ko, kd in zip(fn.args.kwonlyargs, fn.args.kw_defaults, strict=True):
            env[ko.arg] = kw[ko.arg] if ko.arg in kw else (_const_default(kd) if kd is not None else None)
        env["__locals__"] = local_names(fn)
        saved_env = st.env
        saved_mc = self.modconst
        st = st.fork()
        st.env = env
        self.depth += 1
        self.modconst = modconst
        results: list[tuple[St, object]] = []
        try:
            sub_exits: list[Exit] = []
            saved_exits, self.exits = self.exits, sub_exits
            saved_tmpl, self.template = self.template, bool(self.template and recv is _NO_RECV and label in getattr(self, "template_helpers", {}))
            try:
                for s, sig in self.block(st, fn.body):
                    if sig is None:
                        sub_exits.append(Exit("return", None, s))
                    elif isinstance(sig, tuple) and sig[0] == "raise":
                        sub_exits.append(Exit("raise", sig[1], s))
                    elif isinstance(sig, tuple) and sig[0] == "return":
                        sub_exits.append(Exit("return", sig[1], s))
                    else:
                        raise self.unsupported(f"stray {sig} in {label}")
            finally:
                self.exits = saved_exits
                self.template = saved_tmpl
            for e in sub_exits:
                s = e.st
                s.env = dict(saved_env)
                if e.kind == "raise":
                    results.append((s, Exc(str(e.value))))
                else:
                    results.append((s, e.value))
        finally:
            self.depth -= 1
            self.modconst = saved_mc
        return _dedupe_pairs(results)

    # =============================================================== events: children and trivia
    def child(self, st: St, cid: ChildRef, lst: object, state_arg: object) -> list[tuple[St, object]]:
        if isinstance(cid, Opq) and hasattr(cid, "childref"):
            cid = cid.childref
        if not (isinstance(state_arg, PathRef) and state_arg.path == "state"):
            raise self.unsupported(f"child {cid} called without the parser state")
        if not isinstance(lst, LRef) and self.template and isinstance(lst, Opq) and lst.src.isidentifier():
            # the emitted function hands a rule function a list that is not its own: a name of the enclosing (module)
            # scope.  Every call - and every thread - then collects into the same object.
            st = st.fork()
            st.note("SHAREDLIST", f"a rule function is handed the non-local list {lst.src}: state shared between calls of the generated parser")
            shared = st.env.get(f"__shared_{lst.src}")
            if not isinstance(shared, LRef):
                shared = self.newlist(st)
                st.env[f"__shared_{lst.src}"] = shared
            lst = shared
        if not isinstance(lst, LRef):
            raise self.unsupported(f"child {cid.cid} called with a non-list second argument")
        ok = st.fork()
        if self.dirty(ok):
            ok.note("R2", f"child {cid.cid} attempted from a dirty state (a failed attempt was not rewound)")
        fl = ok.fork()
        ok.cur = self.newnode(ok.cur, "child", cid)
        ok.lists[lst.lid] = ok.lists.get(lst.lid, ()) + (("C", ok.cur),)
        ok.stack = None  # a successful child may have changed the user stack
        ok.ev("C", cid.cid, cid.k, True, lst.lid, ok.cur, st.atomic, len(st.frames), st.suppress, st.neg, st.hide)
        fl.cur = self.newnode(fl.cur, "dirty", cid)
        fl.aux_dirty = True
        fl.lists[lst.lid] = fl.lists.get(lst.lid, ()) + (("J", fl.cur),)
        fl.ev("C", cid.cid, cid.k, False, lst.lid, fl.cur, st.atomic, len(st.frames), st.suppress, st.neg, st.hide)
        return [(ok, True), (fl, False)]

    def trivia(self, st: St, lst: object) -> list[tuple[St, object]]:
        if not isinstance(lst, LRef):
            raise self.unsupported("parse_trivia called with a non-list argument")
        st = st.fork()
        if self.dirty(st):
            st.note("R2", "parse_trivia called from a dirty state")
        st.cur = self.newnode(st.cur, "trivia", None)
        st.lists[lst.lid] = st.lists.get(lst.lid, ()) + (("T", st.cur),)
        st.ev("T", lst.lid, st.cur)
        return [(st, Opq("trivia result"))]

    # =============================================================== statements
    def block(self, st: St, stmts: list[ast.stmt]):
        """Yield (state, signal): signal None = fell through; 'break'/'continue';
        ('raise', cls).  Returns are recorded in self.exits."""
        states = [st]
        for s in stmts:
            nxt: list[St] = []
            for x in states:
                for y, sig in self.stmt(x, s):
                    if sig is None:
                        nxt.append(y)
                    else:
                        yield y, sig
            states = _dedupe(nxt)
            if not states:
                return
        for x in states:
            yield x, None

    def raise_or(self, pairs: list[tuple[St, object]]):
        """Split evaluation results into normal values and raised exceptions."""
        for s, v in pairs:
            if isinstance(v, Exc):
                yield s, v, True
            else:
                yield s, v, False

    def stmt(self, st: St, s: ast.stmt):  # noqa: PLR0912, PLR0915
        if isinstance(s, ast.Expr):
            if isinstance(s.value, ast.Constant):
                yield st, None
                return
            for x, v, exc in self.raise_or(self.ev(st, s.value)):
                yield (x, ("raise", v.cls)) if exc else (x, None)
            return
        if isinstance(s, (ast.Assign, ast.AnnAssign)):
            if isinstance(s, ast.AnnAssign) and s.value is None:
                yield st, None
                return
            targets = s.targets if isinstance(s, ast.Assign) else [s.target]
            for x, v, exc in self.raise_or(self.ev(st, s.value)):  # type: ignore[arg-type]
                if exc:
                    yield x, ("raise", v.cls)
                    continue
                x = x.fork()
                for t in targets:
                    self.assign(x, t, v)
                yield x, None
            return
        if isinstance(s, ast.AugAssign):
            yield from self.augassign(st, s)
            return
        if isinstance(s, ast.If):
            for x, b in self.truth(st, s.test):
                yield from self.block(x, s.body if b else s.orelse)
            return
        if isinstance(s, ast.While):
            yield from self.loop_while(st, s)
            return
        if isinstance(s, ast.For):
            yield from self.loop_for(st, s)
            return
        if isinstance(s, ast.Return):
            if s.value is None:
                yield st, ("return", None)
                return
            for x, v, exc in self.raise_or(self.ev(st, s.value)):
                if exc:
                    yield x, ("raise", v.cls)
                else:
                    yield x, ("return", self.deref(x, v))
            return
        if isinstance(s, ast.Break):
            yield st, "break"
            return
        if isinstance(s, ast.Continue):
            yield st, "continue"
            return
        if isinstance(s, ast.Pass):
            yield st, None
            return
        if isinstance(s, ast.Assert):
            yield st, None
            return
        if isinstance(s, ast.With):
            yield from self.with_stmt(st, s)
            return
        if isinstance(s, ast.Raise):
            cls = "Exception"
            if s.exc is not None:
                t = s.exc.func if isinstance(s.exc, ast.Call) else s.exc
                cls = ast.unparse(t)
            yield st, ("raise", cls)
            return
        if isinstance(s, ast.Try):
            yield from self.try_stmt(st, s)
            return
        if isinstance(s, ast.Delete):
            yield st, None
            return
        if isinstance(s, (ast.FunctionDef, ast.Import, ast.ImportFrom, ast.Global, ast.Nonlocal)):
            yield st, None
            return
        if isinstance(s, ast.Match):
            from .desugar import desugar_match  # noqa: PLC0415

            yield from self.block(st, desugar_match(s, self.construct))
            return
        raise self.unsupported(f"statement {type(s).__name__}: {ast.unparse(s)[:60]}")

    def assign(self, st: St, t: ast.AST, v: object) -> None:  # noqa: PLR0912
        if isinstance(t, ast.Name):
            st.env[t.id] = self.deref(st, v) if isinstance(v, PathRef) and v.path in _SNAPSHOT_ON_READ else v
            return
        if isinstance(t, ast.Tuple):
            if isinstance(v, Rec):
                v = tuple(v.fields.values())  # a record unpacks into its fields, in order
            if isinstance(v, tuple) and len(v) == len(t.elts) and not (v and v[0] in ("len", "find", "atomic", "ctx", "slice", "tag", "input_slice", "match_end", "len_input")):
                for tt, vv in zip(t.elts, v, strict=True):
                    self.assign(st, tt, vv)
            else:
                for tt in t.elts:
                    self.assign(st, tt, Opq(ast.unparse(tt)))
            return
        if isinstance(t, ast.Attribute):
            base = self.ev(st, t.value)
            if len(base) != 1:
                raise self.unsupported(f"forking assignment target {ast.unparse(t)}")
            b = base[0][1]
            if isinstance(b, PathRef):
                self.store(st, f"{b.path}.{t.attr}", v, t)
                return
            st.ev("WRITE", ast.unparse(t))
            return
        if isinstance(t, ast.Subscript):
            base = self.ev(st, t.value)
            b = base[0][1] if len(base) == 1 else None
            if isinstance(b, PathRef) and b.path.startswith("state.") and b.path.split(".")[1] in ("user_stack", "rule_stack") and b.path.endswith(("lengths", "popped")):
                return
            st.ev("WRITE", ast.unparse(t))
            return
        raise self.unsupported(f"assignment target {ast.unparse(t)}")

    def store(self, st: St, path: str, v: object, node: ast.AST) -> None:
        v = self.deref(st, v)
        if path == "state.pos":
            self.setpos(st, v, node)
        elif path == "state._suppress_failures":
            st.suppress = 1 if v is True else 0
            st.ev("SUPPRESS", v)
        elif path == "state.neg_pred_depth":
            st.ev("WRITE", path)
        elif path == "state.hide_pairs":
            if not isinstance(v, (bool, int)):
                raise self.unsupported(f"state.hide_pairs is assigned a value the model cannot evaluate: {v!r}")
            st.hide = bool(v)
            st.ev("HIDE", st.hide)
        elif path.startswith("self."):
            st.ev("SELFWRITE", path)
        elif path in ("state.user_stack.items", "state.rule_stack.items", "state.tag_stack", "state.atomic_depth", "state.input"):
            st.note("STATEWRITE", f"direct assignment to {path}")
        else:
            st.ev("WRITE", path)

    def setpos(self, st: St, v: object, node: ast.AST) -> None:
        if isinstance(v, V):
            tgt = v.node
            if tgt == st.cur:
                st.ev("SETPOS=", tgt)
            elif self.is_anc(st.cur, tgt):
                # forward along local arithmetic
                st.cur = tgt
                st.ev("ADV", self.nodes[tgt][2])
            elif self.is_anc(tgt, st.cur):
                # rewind of the position only
                path = self.path_to(st.cur)
                between = path[path.index(tgt) + 1 :]
                kinds = {self.nodes[n][1] for n in between}
                st.cur = tgt
                st.ev("SETPOS", tgt)
                if kinds & {"child"}:
                    # successful children may have changed the stack; position-only rewind leaves that behind
                    st.aux_dirty = True
            else:
                # sideways: target was computed on another branch; whatever was consumed
                # since the common ancestor is silently discarded
                st.note("POS", "state.pos set to a position computed on a different branch than the current one")
                st.cur = tgt
                st.ev("SETPOS", tgt)
        elif isinstance(v, tuple) and v and v[0] == "match_end":
            m = v[1]
            if m.at != st.cur:
                st.note("POS", "state.pos set from a match taken at a different position")
            st.cur = self.newnode(st.cur, "term", ("match_end", m.pat))
            st.ev("ADV", ("match_end", m.pat))
        elif isinstance(v, tuple) and v and v[0] in ("find", "len_input"):
            st.cur = self.newnode(st.cur, "term", (v[0],))
            st.ev("ADV", (v[0],))
        elif isinstance(v, Opq) and v.src in ("find",):
            st.cur = self.newnode(st.cur, "term", ("find",))
            st.ev("ADV", ("find",))
        elif isinstance(v, Opq) and getattr(v, "findpos", False):
            st.cur = self.newnode(st.cur, "term", ("find",))
            st.ev("ADV", ("find",))
        else:
            st.note("POS", f"state.pos assigned from {ast.unparse(node) if not isinstance(v, Opq) else v.src}: not a saved position, a match end, a find result or len(input)")
            st.cur = self.newnode(st.cur, "term", ("unknown",))
            st.ev("ADV", ("unknown",))

    def augassign(self, st: St, s: ast.AugAssign):
        t = s.target
        for x, rv, exc in self.raise_or(self.ev(st, s.value)):
            if exc:
                yield x, ("raise", rv.cls)
                continue
            x = x.fork()
            r = self.deref(x, rv)
            if isinstance(t, ast.Name):
                cur = x.env.get(t.id)
                if isinstance(cur, V) and isinstance(s.op, ast.Add):
                    x.env[t.id] = self.advance_value(x, cur, s.value, r)
                elif isinstance(cur, int) and isinstance(r, int) and not isinstance(cur, bool):
                    x.env[t.id] = cur + r if isinstance(s.op, ast.Add) else cur - r if isinstance(s.op, ast.Sub) else Opq("aug")
                else:
                    x.env[t.id] = Opq(ast.unparse(s))
                yield x, None
                continue
            tv = self.ev(x, t)
            if len(tv) != 1:
                raise self.unsupported(f"forking augmented target {ast.unparse(t)}")
            ref = tv[0][1]
            if isinstance(ref, PathRef):
                p = ref.path
                if p == "state.pos":
                    if isinstance(s.op, ast.Add):
                        nv = self.advance_value(x, V(x.cur), s.value, r)
                        x.cur = nv.node  # type: ignore[union-attr]
                        x.ev("ADV", self.nodes[x.cur][2])
                    else:
                        x.note("POS", f"state.pos modified by {ast.unparse(s)}")
                elif p == "state.atomic_depth":
                    if isinstance(r, int) and isinstance(s.op, (ast.Add, ast.Sub)):
                        d = r if isinstance(s.op, ast.Add) else -r
                        x.atomic = (x.atomic[0], x.atomic[1] + d)
                        x.ev("ATOM", f"{d:+d}")
                    else:
                        raise self.unsupported(ast.unparse(s))
                elif p == "state.neg_pred_depth":
                    if isinstance(r, int) and isinstance(s.op, (ast.Add, ast.Sub)):
                        d = r if isinstance(s.op, ast.Add) else -r
                        x.neg += d
                        x.ev("NEG", d)
                    else:
                        raise self.unsupported(ast.unparse(s))
                else:
                    x.ev("WRITE", p)
                yield x, None
                continue
            x.ev("WRITE", ast.unparse(t))
            yield x, None

    # ---- loops
    def loop_while(self, st: St, s: ast.While):
        states = [st]
        for it in range(self.unroll + 1):
            nxt: list[St] = []
            for x in states:
                for y, b in self.truth(x, s.test):
                    if not b:
                        yield from self.block(y, s.orelse) if s.orelse else [(y, None)]
                        continue
                    if it == self.unroll:
                        self.truncated += 1
                        continue
                    for z, sig in self.block(y, s.body):
                        if sig in (None, "continue"):
                            nxt.append(z)
                        elif sig == "break":
                            yield z, None
                        else:
                            yield z, sig
            states = _dedupe(nxt)
            if not states:
                return

    def loop_for(self, st: St, s: ast.For):
        for x, itv, exc in self.raise_or(self.ev(st, s.iter)):
            if exc:
                yield x, ("raise", itv.cls)
                continue
            if itv is None:
                # `for v in None` raises
                yield x, ("raise", "TypeError")
                continue
            seq = self.iterable(x, itv)
            if isinstance(seq, LRef):
                raise self.unsupported("iteration over a pair list")
            if isinstance(seq, tuple) and not (seq and isinstance(seq[0], str) and seq[0] in ("len", "find", "atomic", "ctx", "slice", "tag", "input_slice", "match_end", "len_input", "suppress")):
                seq = AList(seq)  # a tuple display is enumerable whatever its elements are (names of rule functions, say)
            if isinstance(seq, Opq):
                for n in (0, 1, 2):
                    y0 = x.fork()
                    sts = [y0]
                    dead = False
                    for i in range(n):
                        nx: list[St] = []
                        for y in sts:
                            y = y.fork()
                            self.assign(y, s.target, Sym(f"{seq.src}[{i}]"))
                            for z, sig in self.block(y, s.body):
                                if sig in (None, "continue"):
                                    nx.append(z)
                                elif sig == "break":
                                    yield z, None
                                else:
                                    yield z, sig
                        sts = _dedupe(nx)
                        if not sts:
                            dead = True
                            break
                    if not dead:
                        for y in sts:
                            yield y, None
                continue
            if not isinstance(seq, AList):
                raise self.unsupported(f"for-loop over {ast.unparse(s.iter)} (not an enumerable abstract sequence)")
            states = [x]
            broke = False
            for item in seq.items:
                nxt: list[St] = []
                for y in states:
                    y = y.fork()
                    self.assign(y, s.target, item)
                    for z, sig in self.block(y, s.body):
                        if sig in (None, "continue"):
                            nxt.append(z)
                        elif sig == "break":
                            yield z, None
                        else:
                            yield z, sig
                states = _dedupe(nxt)
                if not states:
                    broke = True
                    break
            if not broke:
                for y in states:
                    if s.orelse:
                        yield from self.block(y, s.orelse)
                    else:
                        yield y, None

    # ---- with / try
    def with_stmt(self, st: St, s: ast.With):  # noqa: PLR0912
        if len(s.items) != 1:
            raise self.unsupported("with-statement with several items")
        item = s.items[0]
        for x, ctx in self.ev(st, item.context_expr):
            if isinstance(ctx, tuple) and ctx and ctx[0] == "suppress":
                caught = ctx[1]
                for y, sig in self.block(x, s.body):
                    if isinstance(sig, tuple) and sig[0] == "raise" and _exc_matches(sig[1], caught):
                        yield y, None
                    else:
                        yield y, sig
                continue
            if isinstance(ctx, tuple) and ctx and ctx[0] == "ctx":
                _, name, cargs = ctx
                x = x.fork()
                self.ctx_enter(x, name, cargs)
                if item.optional_vars is not None:
                    self.assign(x, item.optional_vars, PathRef("state"))
                for y, sig in self.block(x, s.body):
                    if isinstance(sig, tuple) and sig[0] == "raise":
                        yield y, sig  # generator-based managers here have no try/finally
                        continue
                    y = y.fork()
                    self.ctx_exit(y, name)
                    yield y, sig
                continue
            raise self.unsupported(f"context manager {ast.unparse(item.context_expr)}")

    def ctx_enter(self, st: St, name: str, args: tuple) -> None:
        if name == "atomic_checkpoint":
            st.atomic_saves += (st.atomic,)
            st.hide_saves += (st.hide,)  # model of the manager; its source is checked against this model (CTX-MODEL)
            st.ev("ATOM", "save")
        elif name == "suppress_failures":
            st.tagctx += (("suppress-save", st.suppress),)  # the manager puts the previous value back (CTX-MODEL)
            st.suppress = 1
            st.ev("SUPPRESS", True)
        elif name == "tag":
            t = _symdesc(self.deref(st, args[0])) if args else "?"
            st.tags += (("pushed", t),)
            st.ev("TAGPUSH", t)

    def ctx_exit(self, st: St, name: str) -> None:
        if name == "atomic_checkpoint":
            if st.atomic_saves:
                st.atomic = st.atomic_saves[-1]
                st.atomic_saves = st.atomic_saves[:-1]
            if st.hide_saves:
                st.hide = st.hide_saves[-1]
                st.hide_saves = st.hide_saves[:-1]
            st.ev("ATOM", "restore")
        elif name == "suppress_failures":
            saved = [i for i, x in enumerate(st.tagctx) if isinstance(x, tuple) and x and x[0] == "suppress-save"]
            if saved:
                st.suppress = st.tagctx[saved[-1]][1]
                st.tagctx = st.tagctx[: saved[-1]] + st.tagctx[saved[-1] + 1:]
            else:
                st.suppress = 0
            st.ev("SUPPRESS", bool(st.suppress))
        elif name == "tag":
            if st.tags:
                t = st.tags[-1]
                st.tags = st.tags[:-1]
                st.ev("TAGCTXPOP", t)

    def try_stmt(self, st: St, s: ast.Try):
        for y, sig in self.block(st, s.body):
            if isinstance(sig, tuple) and sig[0] == "raise":
                handled = False
                for h in s.handlers:
                    names = ("BaseException",) if h.type is None else tuple(
                        ast.unparse(e) for e in (h.type.elts if isinstance(h.type, ast.Tuple) else [h.type])
                    )
                    if _exc_matches(sig[1], names):
                        handled = True
                        for z, sig2 in self.block(y, h.body):
                            yield from self._finally(z, sig2, s)
                        break
                if not handled:
                    yield from self._finally(y, sig, s)
            elif sig is None and s.orelse:
                for z, sig2 in self.block(y, s.orelse):
                    yield from self._finally(z, sig2, s)
            else:
                yield from self._finally(y, sig, s)

    def _finally(self, st: St, sig: object, s: ast.Try):
        if not s.finalbody:
            yield st, sig
            return
        for z, sig2 in self.block(st, s.finalbody):
            yield z, (sig2 if sig2 is not None else sig)

    # =============================================================== driver
    def run(self, body: list[ast.stmt], st: St, result_var: str | None = None) -> list[Exit]:
        exits: list[Exit] = []
        for x, sig in self.block(st, body):
            self.paths += 1
            if sig is None:
                if result_var is not None:
                    if result_var not in x.env:
                        x = x.fork()
                        x.note("R5", f"{result_var} is not assigned on this path")
                        exits.append(Exit("fall", None, x))
                    else:
                        v = x.env[result_var]
                        exits.append(Exit("fall", v if isinstance(v, bool) else None, x))
                else:
                    exits.append(Exit("fall", None, x))
            elif isinstance(sig, tuple) and sig[0] == "return":
                v = sig[1]
                exits.append(Exit("return", v if isinstance(v, bool) or v is None else ("val", v), x))
            elif isinstance(sig, tuple) and sig[0] == "raise":
                exits.append(Exit("raise", sig[1], x))
            else:
                raise self.unsupported(f"stray {sig} at function level")
        return exits


OBJECT_PATHS = {
    "state", "self", "state.user_stack", "state.rule_stack", "state.atomic_depth", "state.parser", "state.parser.rules",
}

_FREE_OK = {
    "state", "re", "Pair", "Pairs", "ParserState", "RuleFrame", "rule_frame", "parse_trivia", "len", "reversed",
    "enumerate", "True", "False", "None", "PestParsingError", "Callable", "StrEnum", "range", "int", "str",
}

_SNAPSHOT_ON_READ = {"state.pos", "state.input", "state.user_stack.items", "state.rule_stack.items", "state.tag_stack", "state.neg_pred_depth"}


def _has_abs(v: object) -> bool:
    if isinstance(v, tuple):
        return any(_has_abs(x) for x in v)
    return isinstance(v, (Opq, Sym, V, LRef, PathRef, AList, ChildRef, MatchObj, PairVal, Bound, Exc))


def _posdesc(v: object) -> str:
    if isinstance(v, V):
        return f"pos#{v.node}"
    return repr(v)


def _symdesc(v: object) -> str:
    if isinstance(v, Sym):
        return v.name
    if isinstance(v, Opq):
        return "?" + v.src
    if isinstance(v, tuple) and v and v[0] == "input_slice":
        return f"input[{_posdesc(v[1])}:{_posdesc(v[2])}]"
    return repr(v)


def _exc_matches(cls: str, caught: tuple) -> bool:
    hier = {
        "IndexError": ("IndexError", "LookupError", "Exception", "BaseException"),
        "KeyError": ("KeyError", "LookupError", "Exception", "BaseException"),
        "ValueError": ("ValueError", "Exception", "BaseException"),
        "TypeError": ("TypeError", "Exception", "BaseException"),
        "AssertionError": ("AssertionError", "Exception", "BaseException"),
    }
    return any(c in hier.get(cls, (cls, "Exception", "BaseException")) for c in caught)


def _const_default(node: ast.AST) -> object:
    try:
        return ast.literal_eval(node)
    except ValueError:
        return Opq(ast.unparse(node))


def _dedupe(states: list[St]) -> list[St]:
    seen = set()
    out = []
    for s in states:
        k = s.key()
        if k not in seen:
            seen.add(k)
            out.append(s)
    return out


def _dedupe_pairs(pairs: list[tuple[St, object]]) -> list[tuple[St, object]]:
    seen = set()
    out = []
    for s, v in pairs:
        k = (s.key(), _vkey(v) if not isinstance(v, tuple) else repr(v))
        if k not in seen:
            seen.add(k)
            out.append((s, v))
    return out


def _state_field_classes(repo: Repo) -> dict[str, tuple[str, str]]:
    """``state.<field>`` -> (file, class) from ParserState.__init__ (``self.f = Cls(...)``)."""
    out: dict[str, tuple[str, str]] = {"state": (STATE_REL, "ParserState")}
    init = repo.func(STATE_REL, "ParserState.__init__")
    known = {"Stack": STACK_REL, "SnapshottingInt": CINT_REL}
    for n in ast.walk(init):
        if isinstance(n, (ast.Assign, ast.AnnAssign)):
            t = n.targets[0] if isinstance(n, ast.Assign) else n.target
            v = n.value
            if isinstance(t, ast.Attribute) and isinstance(t.value, ast.Name) and t.value.id == "self" and isinstance(v, ast.Call):
                f = v.func
                if isinstance(f, ast.Subscript):
                    f = f.value
                if isinstance(f, ast.Name) and f.id in known:
                    out[f"state.{t.attr}"] = (known[f.id], f.id)
    for need in ("state.user_stack", "state.rule_stack", "state.atomic_depth"):
        if need not in out:
            raise AnalysisError(f"anchor vanished: ParserState.__init__ does not create {need}")
    return out
