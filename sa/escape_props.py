"""Shared machinery for the exception-escape properties (C07, C11, C13, C06)."""

from __future__ import annotations

import ast
import re

from .core import AnalysisError, Check, Finding
from .escape import Escape
from .repo import Repo
from .triage_escape import TRIAGE

_ESC_CACHE: dict = {}
_DIGESTS: dict | None = None


def function_digest(repo: Repo, func_key: str, site_expr: str | None = None) -> str | None:
    """Digest of what a triaged site depends on inside its function: the backward slice of the names in the site's
    expression (assignments, loop headers and tests that mention them, transitively), or the whole body when no
    site is given.  Positions, docstrings and statements outside the slice do not count."""
    import hashlib

    rel, qual = func_key.split("::", 1)
    try:
        fn = repo.func(rel, qual)
    except Exception:  # noqa: BLE001
        return None
    body = [s for s in fn.body if not (isinstance(s, ast.Expr) and isinstance(s.value, ast.Constant) and isinstance(s.value.value, str))]
    if site_expr is None:
        text = ast.dump(ast.Module(body=body, type_ignores=[]), annotate_fields=False, include_attributes=False)
        return hashlib.sha256(text.encode()).hexdigest()[:16]
    try:
        names = {n.id for n in ast.walk(ast.parse(site_expr, mode="eval")) if isinstance(n, ast.Name)} - {"self", "state"}
    except SyntaxError:
        names = set()
    attrs = {ast.unparse(n) for n in ast.walk(ast.parse(site_expr, mode="eval")) if isinstance(n, ast.Attribute)} if names is not None else set()
    parts: list[str] = []
    for _ in range(4):
        grew = False
        for n in ast.walk(ast.Module(body=body, type_ignores=[])):
            tgt_names: set[str] = set()
            dep: ast.AST | None = None
            if isinstance(n, (ast.Assign, ast.AnnAssign, ast.AugAssign)):
                tg = n.targets if isinstance(n, ast.Assign) else [n.target]
                tgt_names = {x.id for t in tg for x in ast.walk(t) if isinstance(x, ast.Name)} | {ast.unparse(t) for t in tg if isinstance(t, ast.Attribute)}
                dep = n.value
            elif isinstance(n, (ast.For, ast.comprehension)):
                tgt_names = {x.id for x in ast.walk(n.target) if isinstance(x, ast.Name)}
                dep = n.iter
            elif isinstance(n, ast.NamedExpr):
                tgt_names = {n.target.id}
                dep = n.value
            if tgt_names & (names | attrs) and dep is not None:
                new = {x.id for x in ast.walk(dep) if isinstance(x, ast.Name)} - {"self", "state"}
                if not new <= names:
                    names |= new
                    grew = True
        if not grew:
            break
    for n in ast.walk(ast.Module(body=body, type_ignores=[])):
        keep = False
        if isinstance(n, (ast.Assign, ast.AnnAssign, ast.AugAssign)):
            tg = n.targets if isinstance(n, ast.Assign) else [n.target]
            keep = bool(({x.id for t in tg for x in ast.walk(t) if isinstance(x, ast.Name)} | {ast.unparse(t) for t in tg if isinstance(t, ast.Attribute)}) & (names | attrs))
            node: ast.AST = n
        elif isinstance(n, (ast.For, ast.comprehension)):
            keep = bool({x.id for x in ast.walk(n.target) if isinstance(x, ast.Name)} & names)
            node = ast.Tuple(elts=[n.target, n.iter], ctx=ast.Load())
        elif isinstance(n, (ast.If, ast.While, ast.IfExp, ast.Assert)):
            keep = bool({x.id for x in ast.walk(n.test) if isinstance(x, ast.Name)} & names) or any(ast.unparse(x) in attrs for x in ast.walk(n.test) if isinstance(x, ast.Attribute))
            node = n.test
        elif isinstance(n, (ast.Return, ast.Break, ast.Continue)):
            keep = True  # control flow shapes which definitions reach the site
            node = ast.Expr(value=ast.Constant(value=type(n).__name__))
        elif isinstance(n, ast.NamedExpr):
            keep = n.target.id in names
            node = n
        if keep:
            parts.append(ast.dump(node, annotate_fields=False, include_attributes=False))
    # repository functions called inside the site expression: the SAFE reason usually rests on what they return
    cls_prefix = qual.rsplit(".", 1)[0] + "." if "." in qual else ""
    for c in ast.walk(ast.parse(site_expr, mode="eval")):
        if not isinstance(c, ast.Call):
            continue
        callee = None
        if isinstance(c.func, ast.Name):
            callee = c.func.id
        elif isinstance(c.func, ast.Attribute) and isinstance(c.func.value, ast.Name) and c.func.value.id == "self" and cls_prefix:
            callee = cls_prefix + c.func.attr
        if callee is None:
            continue
        try:
            repo.func(rel, callee)
        except Exception:  # noqa: BLE001
            continue
        parts.append(f"callee {callee}: {function_digest(repo, f'{rel}::{callee}')}")
    sig = [a.arg for a in fn.args.args + fn.args.kwonlyargs]
    text = repr(sig) + "|" + site_expr + "|" + "\n".join(parts)
    return hashlib.sha256(text.encode()).hexdigest()[:16]


def triage_trusted(repo: Repo, site_key: str) -> bool:
    """A SAFE entry is trusted only for the version of the code it was written for (tools/retriage.py)."""
    global _DIGESTS  # noqa: PLW0603
    if _DIGESTS is None:
        import json
        from pathlib import Path

        p = Path(__file__).with_name("triage_digests.json")
        _DIGESTS = json.loads(p.read_text()) if p.exists() else {}
    func, _kind, expr, _exc = (site_key.split("|") + ["", "", ""])[:4]
    if _kind == "assert" and expr in ("state.parser", "self.parser"):
        # the reason ("Parser.parse always passes itself to ParserState") is about the caller, not about the code
        # around the assert: it is re-checked as a premise on every run instead of being pinned by a digest
        return parser_is_set(repo)
    if func.startswith("src/pest/stack.py::Stack."):
        # every SAFE reason for a site inside Stack is about *when* it raises (empty stack: the callers' business,
        # enumerated by the operator analysis) or about the snapshot bookkeeping (asserts): both are exactly what
        # REP-INVARIANT decides - each method agrees with a stack of full copies, raises included, on every state
        # satisfying the representation invariant.  The premise is re-checked instead of pinning the text.
        return stack_agrees_with_reference(repo)
    if _exc == "RuntimeError" and func.startswith("src/pest/grammar/optimizer.py::") and "|raise|" in site_key:
        # the reason ("only reachable for steps with fixed_point=True; no default step sets it") is about who reaches
        # the function, not about its text: it is re-checked as two premises instead of being pinned by a digest
        return referenced_only_under_flag(repo, func, "fixed_point") and _no_fixed_point_default_quiet(repo)
    want = _DIGESTS.get(site_key)
    return want is not None and want == function_digest(repo, func, expr)


def _no_fixed_point_default_quiet(repo: Repo) -> bool:
    shadow = Check("C11", "quick", "")
    try:
        return no_fixed_point_default(shadow, repo)
    except AnalysisError:
        return False


def raises_only_under_flag(repo: Repo, func: str, exc: str, flag: str) -> bool:
    """Every `raise <exc>` of the function lies on the true side of an `if <x>.<flag>` test, or after an
    `if not <x>.<flag>: return ...` at the top level of the function (an early return for objects without the flag)."""
    rel, qual = func.split("::", 1)
    try:
        fn = repo.func(rel, qual)
    except AnalysisError:
        return False
    parents: dict[int, ast.AST] = {}
    for n in ast.walk(fn):
        for c in ast.iter_child_nodes(n):
            parents[id(c)] = n

    def reads_flag(t: ast.AST) -> bool:
        return any(isinstance(x, ast.Attribute) and x.attr == flag for x in ast.walk(t))

    guarded_from = None
    for i, st in enumerate(fn.body):
        if isinstance(st, ast.If) and isinstance(st.test, ast.UnaryOp) and isinstance(st.test.op, ast.Not) and reads_flag(st.test.operand) and not st.orelse \
                and isinstance(st.body[-1], (ast.Return, ast.Raise, ast.Continue)):
            guarded_from = i
            break
    raises = [n for n in ast.walk(fn) if isinstance(n, ast.Raise) and n.exc is not None and ast.unparse(n.exc).split("(")[0].split(".")[-1] == exc]
    if not raises:
        return False
    for r in raises:
        ok = False
        cur: ast.AST = r
        top = r
        while id(cur) in parents:
            par = parents[id(cur)]
            if isinstance(par, ast.If) and any(cur is b for b in par.body) and reads_flag(par.test) and not (isinstance(par.test, ast.UnaryOp) and isinstance(par.test.op, ast.Not)) and not isinstance(par.test, ast.BoolOp):
                ok = True
            if par is fn:
                top = cur
            cur = par
        if not ok and guarded_from is not None and top in fn.body and fn.body.index(top) > guarded_from:  # type: ignore[arg-type]
            ok = True
        if not ok:
            return False
    return True


def abstract_hook(repo: Repo, func: str) -> bool:
    """`raise NotImplementedError` in method M of class C: unreachable when neither C nor any subclass that inherits
    C's M is ever instantiated in the package (every constructor call names a class that overrides M)."""
    rel, qual = func.split("::", 1)
    if "." not in qual:
        return False
    cname, mname = qual.split(".", 1)
    if "." in mname:
        return False
    inherits = {cname}
    for sub in repo.subclasses(cname):
        r = repo.resolve_method(sub, mname)
        if r is not None and r[1] == cname:
            inherits.add(sub)
    for r2 in repo.py_files:
        for n in ast.walk(repo.mod(r2).tree):
            if isinstance(n, ast.Call):
                callee = ast.unparse(n.func).split(".")[-1]
                if callee in inherits:
                    return False
    # (`self.__class__(...)` / `type(self)(...)` in a method of these classes builds the *runtime* class: an instance
    # exists only of a class some constructor call names, and none of those inherits the hook)
    return True


def referenced_only_under_flag(repo: Repo, func: str, flag: str) -> bool:
    """Every reference to the function (call or address taken, anywhere in the package) lies on the true side of a
    test - an `if` statement or a conditional expression - that reads the attribute `flag`, not negated: the
    function runs only for objects that set the flag."""
    rel, qual = func.split("::", 1)
    name = qual.split(".")[-1]
    refs = 0
    for r in repo.py_files:
        tree = repo.mod(r).tree
        parents: dict[int, ast.AST] = {}
        for n in ast.walk(tree):
            for c in ast.iter_child_nodes(n):
                parents[id(c)] = n
        for n in ast.walk(tree):
            if not ((isinstance(n, ast.Attribute) and n.attr == name) or (isinstance(n, ast.Name) and n.id == name and isinstance(n.ctx, ast.Load))):
                continue
            refs += 1
            cur: ast.AST = n
            guarded = False
            while id(cur) in parents:
                par = parents[id(cur)]
                if isinstance(par, (ast.If, ast.IfExp)):
                    on_true = (cur is par.body) if isinstance(par, ast.IfExp) else any(cur is b for b in par.body)
                    reads = any(isinstance(t, ast.Attribute) and t.attr == flag for t in ast.walk(par.test))
                    negated = isinstance(par.test, ast.UnaryOp) and isinstance(par.test.op, ast.Not)
                    if on_true and reads and not negated and not isinstance(par.test, ast.BoolOp):
                        guarded = True
                        break
                if isinstance(par, (ast.FunctionDef, ast.Lambda)):
                    break
                cur = par
            if not guarded:
                return False
    return refs > 0


_STACK_OK: dict[int, bool] = {}


def stack_agrees_with_reference(repo: Repo) -> bool:
    key = id(repo)
    if key not in _STACK_OK:
        from .objmodel import ClassModel  # noqa: PLC0415
        from .stackmodel import METHODS, check_method  # noqa: PLC0415

        ok = True
        try:
            cm = ClassModel(repo, "src/pest/stack.py", "REP-INVARIANT premise", {"Generic": None})
            cls = repo.cls("src/pest/stack.py", "Stack")
            for q in METHODS:
                fn = next((n for n in reversed(cls.body) if isinstance(n, ast.FunctionDef) and n.name == q), None)  # the last definition: earlier ones are @overload stubs
                if fn is None:
                    ok = False
                    break
                _n, bad = check_method(fn, f"src/pest/stack.py::Stack.{q}", q, 3, 1, cm)
                if bad:
                    ok = False
                    break
        except (AnalysisError, KeyError):
            # the invariant cannot be stated on the representation Stack has now: the bounded, representation-
            # independent HISTORIES rule stands in (raises included: pop on an empty stack raises, nothing else does)
            try:
                from .props.c09 import stack_histories  # noqa: PLC0415

                ok = stack_histories(Check("C09", "quick", ""), repo, "quick")
            except (AnalysisError, KeyError):
                ok = False
        _STACK_OK[key] = ok
    return _STACK_OK[key]


def parser_is_set(repo: Repo) -> bool:
    """Premise: every ParserState the interpreter builds gets the Parser itself in the field `parser` (arguments
    bound to the constructor's parameters by role, sa/binding.py)."""
    from .binding import role_of  # noqa: PLC0415

    try:
        init = repo.func("src/pest/state.py", "ParserState.__init__")
        parse = repo.func("src/pest/parser.py", "Parser.parse")
        calls = [n for n in ast.walk(parse) if isinstance(n, ast.Call) and ast.unparse(n.func) == "ParserState"]
        return bool(calls) and all(role_of(c, init, "parser", "Parser.parse") == "self" for c in calls)
    except (AnalysisError, KeyError):
        return False


def escape_engine(repo: Repo) -> Escape:
    key = id(repo)
    if key not in _ESC_CACHE:
        _ESC_CACHE[key] = Escape(repo)
    return _ESC_CACHE[key]


def arity_rule(check: Check, repo: Repo) -> set[str]:
    """with_children() may index / assert exactly what children() of the same class
    returns.  Returns the set of function keys whose sites are discharged by it."""
    discharged: set[str] = set()
    for cname in repo.subclasses("Expression"):
        rel, cnode = repo.class_table[cname]
        wc = next((n for n in cnode.body if isinstance(n, ast.FunctionDef) and n.name == "with_children"), None)
        if wc is None or any(ast.unparse(d) == "abstractmethod" for d in wc.decorator_list):
            continue
        r = repo.resolve_method(cname, "children")
        if r is None:
            raise AnalysisError(f"{rel}::{cname}: with_children without children")
        rets = [n.value for n in ast.walk(r[2]) if isinstance(n, ast.Return) and n.value is not None]
        if len(rets) != 1:
            raise AnalysisError(f"{rel}::{cname}.children: expected a single return")
        rv = rets[0]
        n = len(rv.elts) if isinstance(rv, ast.List) else None  # None: variable length (self.expressions)
        construct = f"{rel}::{cname}.with_children"
        ok = True
        why = []
        for node in ast.walk(wc):
            if isinstance(node, ast.Subscript) and isinstance(node.ctx, ast.Load) and ast.unparse(node.value) == "expressions":
                if isinstance(node.slice, ast.Constant) and isinstance(node.slice.value, int):
                    if n is None or not (0 <= node.slice.value < n):
                        ok = False
                        why.append(f"expressions[{node.slice.value}] with {n} children")
                elif not isinstance(node.slice, ast.Slice):
                    ok = False
                    why.append(ast.unparse(node))
            if isinstance(node, ast.Assert):
                t = ast.unparse(node.test)
                if t == "not expressions":
                    if n != 0:
                        ok = False
                        why.append(f"assert not expressions with {n} children")
                elif t.startswith("len(expressions) == "):
                    k = int(t.rsplit(" ", 1)[1])
                    if n != k:
                        ok = False
                        why.append(f"assert len == {k} with {n} children")
                elif t.startswith("isinstance(expressions[0], "):
                    # the single child of a built-in rule is never rewritten by a default pass:
                    # each pass returns its argument unless it is a Repeat*/Choice/Identifier/BuiltInRule
                    if n != 1:
                        ok = False
                        why.append(t)
                else:
                    ok = False
                    why.append(f"assert {t}")
        what = f"with_children() indexes/asserts exactly the {n if n is not None else 'variable number of'} children that children() returns"
        check.oblige("ARITY", construct, what if ok else "with_children() indexes or asserts beyond what children() returns", ok,
                     finding=Finding("ARITY", construct, "with_children() indexes or asserts beyond what children() returns", f"{cname}.with_children: {why}", {"why": why}))
        check.count("with_children_arity")
        if ok:
            discharged.add(construct)
    # who calls with_children: only the two tree maps
    esc = escape_engine(repo)
    callers = set()
    for f in esc.funcs.values():
        for keys, _h, _t in f.calls:
            if any(k.endswith(".with_children") for k in keys):
                callers.add(f.key)
    allowed = {"src/pest/grammar/expression.py::Expression.map_bottom_up", "src/pest/grammar/expression.py::Expression.map_top_down"}
    extra = sorted(callers - allowed)
    check.oblige("ARITY", "src/pest/grammar/expression.py::Expression.with_children", "with_children() is only called by map_bottom_up/map_top_down with one new child per old child" if not extra else "with_children() has a caller other than the tree maps", not extra,
                 finding=Finding("ARITY", "src/pest/grammar/expression.py::Expression.with_children", "with_children() has a caller other than the tree maps", f"callers {extra} may pass a list of another length", {}))
    for k in allowed:
        fn = esc.funcs.get(k)
        if fn is None:
            raise AnalysisError(f"anchor vanished: {k}")
        src = ast.unparse(fn.node)
        ok = "for c in self.children()]" in src or "for c in expr.children()]" in src
        check.oblige("ARITY", k, "passes [f(c) for c in <node>.children()]" if ok else "the tree map does not build its list from children()", ok)
    return discharged


def no_fixed_point_default(check: Check, repo: Repo) -> bool:
    rel = "src/pest/grammar/optimizer.py"
    m = repo.mod(rel)
    found = False
    ok = True
    for n in m.tree.body:
        if isinstance(n, ast.Assign) and ast.unparse(n.targets[0]) == "DEFAULT_OPTIMIZER_PASSES":
            found = True
            for c in ast.walk(n.value):
                if isinstance(c, ast.Call) and ast.unparse(c.func) == "OptimizerStep":
                    if len(c.args) > 3 or any(k.arg == "fixed_point" and not (isinstance(k.value, ast.Constant) and k.value.value is False) for k in c.keywords):
                        ok = False
    if not found:
        raise AnalysisError(f"anchor vanished: {rel}::DEFAULT_OPTIMIZER_PASSES")
    check.oblige("TRIAGE-PREMISE", f"{rel}::DEFAULT_OPTIMIZER_PASSES", "no default optimizer step uses fixed_point" if ok else "a default optimizer step uses fixed_point: _run_fixed_point may raise RuntimeError", ok)
    return ok


def run_entry(check: Check, repo: Repo, entry: str, allowed: set[str], rule: str, *, extra_roots: list[str] | None = None, discharged_funcs: set[str] | None = None, exempt_funcs: dict[str, str] | None = None, recursion: bool = False, roots_at: str | None = None) -> tuple[int, int]:
    """Report every (exception, site) that can escape ``entry`` and is neither allowed,
    discharged by a machine-checked rule, nor triaged SAFE."""
    esc = escape_engine(repo)
    sites, reach = esc.escapes(entry, extra_roots, recursion=recursion, roots_at=roots_at)
    check.count("reachable_functions", len(reach))
    if recursion:
        check.count("functions_on_call_cycles", len(esc.recursive_funcs))
    n_sites = 0
    for k in reach:
        n_sites += len(esc.funcs[k].sites)
    check.count("may_raise_sites", n_sites)
    escaping = 0
    for site, chain in sorted(sites.items(), key=lambda kv: kv[0].key()):
        if any(esc.is_sub(site.exc, a) for a in allowed):
            check.oblige(rule, site.func, f"raises the allowed {site.exc}", True, nontrivial=True)
            continue
        if discharged_funcs and site.func in discharged_funcs:
            check.oblige(rule, site.func, f"{site.kind} {site.expr}: discharged by the arity rule", True)
            continue
        if exempt_funcs and site.func in exempt_funcs:
            check.oblige(rule, site.func, f"{site.kind} {site.expr}: {exempt_funcs[site.func]}", True)
            continue
        if site.kind == "assert" and site.expr in ("state.parser", "self.parser") and parser_is_set(repo):
            check.oblige(rule, site.func, f"assert {site.expr}: every ParserState the interpreter builds gets the Parser in that field (premise re-checked by role binding)", True)
            continue
        if site.exc == "KeyError" and site.kind == "subscript" and _RULE_LOOKUP.fullmatch(site.expr) and (not site.expr.startswith("self.rules") or "::Parser." in site.func) \
                and not ("from_grammar" in entry or "/grammar/" in entry and "expressions" not in entry):
            # while parsing, a rule looked up in the parser's table by a plain name: the property ranges over start
            # rules of the grammar and over grammars whose references are defined (the same reason as the triage
            # entries for Parser.parse / Identifier.parse, stated for the construct instead of for one spelling)
            check.oblige(rule, site.func, f"{site.expr}: a rule looked up by name; unknown start rules and undefined references are outside the property's quantifier", True)
            continue
        if site.exc == "RuntimeError" and site.kind == "raise" and site.func.startswith("src/pest/grammar/optimizer.py::") and _no_fixed_point_default_quiet(repo) \
                and (referenced_only_under_flag(repo, site.func, "fixed_point") or raises_only_under_flag(repo, site.func, "RuntimeError", "fixed_point")):
            check.oblige(rule, site.func, "raise RuntimeError: reached only for a step that sets fixed_point (the function is referenced, or the raise lies, under a test of that flag), and no default step sets it (both premises re-checked)", True)
            continue
        if site.exc == "NotImplementedError" and site.kind == "raise" and abstract_hook(repo, site.func):
            check.oblige(rule, site.func, "raise NotImplementedError in a hook that every class the package instantiates overrides (the class that holds it is never instantiated itself)", True)
            continue
        tri = TRIAGE.get(site.key())
        stale = None
        if tri and tri[0] == "SAFE" and not triage_trusted(repo, site.key()):
            # the reason was written for other code: it is void, and the site is decided like any undischarged one
            stale = f"{site.func}: the code it depends on has changed since the site `{site.expr}` ({site.exc}) was triaged SAFE (\"{tri[1][:80]}...\"); the reason has to be re-read against the new code (tools/retriage.py)"
            tri = None
        if tri and tri[0] == "SAFE":
            check.oblige(rule, site.func, f"{site.kind} {site.expr}: triaged safe — {tri[1]}", True)
            check.count("triaged_safe_sites")
            continue
        # Not discharged by an idiom, a machine-checked rule or the triage table.  A may-raise site is not a
        # demonstrated escape: it is decided on the program model (sa/ordabs.py COVERAGE) - discharged when the model
        # families that cover this entry executed the construct and it never raised, a violation when they show it
        # raising (the model point is the witness), undecided when they never reach it.
        if site.kind == "recursion":
            # not a may-raise guess: a function on a call-graph cycle reachable from the entry overflows the
            # interpreter stack on deep enough input, whatever the model evaluates
            escaping += 1
            sig = f"{site.exc} from {site.kind} {site.expr} can escape"
            chain_txt = " > ".join(c.split("::")[-1] for c in chain)
            check.oblige(rule, site.func, sig, False, finding=Finding(rule, site.func, sig, f"{site.exc} raised at {site.func.split('::')[-1]} ({site.kind}: {site.expr}) is not handled on the call chain {chain_txt}", {"chain": chain, "entry": entry}))
            continue
        cov = model_coverage(repo, entry)
        qual = site.func.split("::")[-1]
        got = cov.get((qual, site.kind, site.expr)) or (cov.get((qual, site.kind, site.expr[:80])) if site.kind == "call" else None)
        chain_txt = " > ".join(c.split("::")[-1] for c in chain)
        if got and got["raise"] > 0 and any(k.startswith("raise:") for k in got):
            # only what the site itself is charged with counts: a library error of a callee passing through a call
            # expression (`chr(_hex(digits, token))` with _hex refusing the digits) is not the site's ValueError
            got = dict(got, **{"raise": sum(v for k, v in got.items() if k.startswith("raise:") and _exc_matches(k[6:], site.exc)), "ok": got["ok"] + sum(v for k, v in got.items() if k.startswith("raise:") and not _exc_matches(k[6:], site.exc))})
        if got and got["raise"] == 0 and got["ok"] > 0:
            check.oblige(rule, site.func, f"{site.kind} {site.expr}: executed {got['ok']} times on the program model without raising", True)
            check.count("sites_discharged_on_the_model")
            continue
        if got and got["raise"] > 0:
            escaping += 1
            sig = f"{site.exc} from {site.kind} {site.expr} can escape"
            check.oblige(rule, site.func, sig, False, finding=Finding(rule, site.func, sig, f"{site.exc} raised at {qual} ({site.kind}: {site.expr}) is not handled on the call chain {chain_txt}; the program model raises there on {got['raise']} of {got['raise'] + got['ok']} evaluations", {"chain": chain, "entry": entry}))
            continue
        if site.kind == "raise" and not got and "build_optimized_pattern" in chain_txt.split(" > "):
            # the default arm of a dispatch over the kinds of alternative a squashed choice holds, wherever the dispatch
            # lives now: O12's family enumerates every kind (literal x case x length, range, built-in class rule), so
            # an arm that no model point takes although the function around it was evaluated is unreachable
            around = sum(v["ok"] for (q_, _k, _e), v in cov.items() if q_ == qual)
            if around > 0:
                check.oblige(rule, site.func, f"raise {site.exc}: the arm is never taken although {qual} was evaluated on the program model ({around} site evaluations) under a family that enumerates every kind of alternative", True)
                check.count("sites_discharged_on_the_model")
                continue
        check.defer_error(stale or f"{site.func}: {site.exc} at {site.kind} `{site.expr}` may escape on the call chain {chain_txt}; no guard idiom, rule or triage entry discharges it and the program model never evaluates it: not decided")
    return len(sites), escaping


_COV_DONE: dict[str, bool] = {}


_RULE_LOOKUP = re.compile(r"(state\.parser|self\.parser|self)\.rules\[[A-Za-z_][\w.]*\]")


def _exc_matches(raised: str, charged: str) -> bool:
    """Is an exception the model raised (by class name) one the site is charged with?"""
    import builtins

    if raised == charged or charged in ("Exception", "BaseException"):
        return True
    a, b = getattr(builtins, raised, None), getattr(builtins, charged, None)
    if isinstance(a, type) and isinstance(b, type):
        return issubclass(a, b) or issubclass(b, a)
    return False


def model_coverage(repo: Repo, entry: str) -> dict:
    """Run (once per process and entry family) the program-model suites whose families cover what the entry reaches,
    and return the coverage they recorded.  Only called when some site is left undischarged - on a tree where every
    site is discharged statically this costs nothing."""
    from . import ordabs  # noqa: PLC0415

    fam = "render" if "exceptions.py" in entry or "Error." in entry else "load" if "from_grammar" in entry or "/grammar/" in entry else "parse"
    if not _COV_DONE.get(fam):
        _COV_DONE[fam] = True
        suites: list = []
        if fam == "load":
            from . import frontsem, optsem, squashsem, tokparse, unescsem, unrollsem  # noqa: PLC0415

            suites = [
                lambda: frontsem.check_front_end(repo, "coverage", False), lambda: tokparse.check_structure(repo, "coverage"), lambda: tokparse.check_rules(repo, "coverage"),
                lambda: unescsem.check_decoder(repo, "coverage"), lambda: optsem.check_pipeline(repo, "coverage"), lambda: optsem.check_skip_pass(repo, "coverage"),
                lambda: squashsem.check_squash(repo, "coverage", ["k", "K", "\u212a", "."], 2, False), lambda: unrollsem.check_unroll_pass(repo, "coverage"),
                lambda: squashsem.check_inline_silent(repo, "coverage"), lambda: squashsem.check_inline_builtin(repo, "coverage"),
            ]
        elif fam == "parse":
            from . import failsem, gensem, ops, opsem, squashsem, termsem, triviasem  # noqa: PLC0415

            suites = [
                lambda: opsem.check_operators(repo, "coverage", "quick"), lambda: gensem.check_gen(repo, "coverage", ops.modifier_masks(repo), False),
                lambda: termsem.check_terminals(repo, "coverage", False), lambda: triviasem.check_trivia(repo, "coverage"), lambda: failsem.check_fail(repo, "coverage", False),
                lambda: squashsem.check_squash(repo, "coverage", ["k", "K", "\u212a", "."], 2, False), lambda: opsem.check_ctx_managers(repo, "coverage"),
            ]
        else:
            from . import failsem, linesem, rendersem  # noqa: PLC0415

            suites = [lambda: linesem.check_error_context(repo, "coverage"), lambda: linesem.check_grammar_error_context(repo, "coverage"), lambda: failsem.check_fail(repo, "coverage", False),
                      lambda: rendersem.check_render(repo, "coverage")]
        for run in suites:
            try:
                run()
            except AnalysisError:
                pass  # a suite that cannot model the changed code contributes no coverage; the site stays undecided
            except Exception:  # noqa: BLE001, S110
                pass
    return ordabs.COVERAGE
