"""C13 FAIL (semantic) — ParserState.fail keeps the furthest-failure record.

The record is (position, expected labels by rule, unexpected labels by rule, rule
stack).  fail() compares the failing position with the recorded one (an order type:
behind, at, beyond), looks at the parity of the negative-predicate depth, at `force`
and at the suppression flag, and files the label under the rule on top of the rule stack
unless a rule name is given.  It is evaluated from its syntax tree on a fresh
ParserState (sa/objmodel.py) for every combination of these facts — including the empty
string for "no particular rule", which the generated code passes — after one and after
two earlier failures, and compared with the record a straightforward reference keeps.
"""

from __future__ import annotations

import itertools

from .core import AnalysisError
from .objmodel import ClassModel, model_attr, new_parser_state
from .ordabs import ModelRaise, Obj
from .repo import Repo
from .triviasem import RELS


class Ref:
    def __init__(self) -> None:
        self.pos = -1
        self.exp: dict[str, list[str]] = {}
        self.unexp: dict[str, list[str]] = {}
        self.stack: list = []

    def fail(self, label: str, pos: int, top: str, frames: list, depth: int, force: bool, suppressed: bool, rule_name: str | None) -> None:
        if (depth > 0 and not force) or suppressed:
            return
        neg = depth % 2 == 1
        name = rule_name if rule_name else top  # '' stands for "no particular rule": the templates cannot write None
        if pos > self.pos:
            self.pos, self.stack = pos, list(frames)
            self.exp, self.unexp = ({}, {name: [label]}) if neg else ({name: [label]}, {})
        elif pos == self.pos:
            (self.unexp if neg else self.exp).setdefault(name, []).append(label)


def check_fail(repo: Repo, where: str, thorough: bool = False) -> tuple[int, list[tuple[str, str]]]:
    cm = ClassModel(repo, RELS, where, {"Generic": None}, max_steps=100000)
    if "ParserState" not in cm.classes:
        raise AnalysisError("anchor vanished: class ParserState")
    bad: list[tuple[str, str]] = []
    n = 0
    # one call of fail(): position, predicate depth, force, suppression, explicit rule name
    call = list(itertools.product((1, 3, 5), (0, 1, 2), (False, True), (False, True), (None, "", "named")))
    if thorough:
        histories = [[c] for c in call] + [[a, b] for a in call[:: 7] for b in call] + [[a, b, c] for a in call[:: 23] for b in call[:: 11] for c in call[:: 5]]
    else:
        histories = [[c] for c in call] + [[a, b] for a in call[:: 17] for b in call[:: 2]]
    for hist in histories:
        n += 1
        try:
            state = new_parser_state(cm, "x" * 8, 0, Obj("Parser", rules={}), where)
            frames = [Obj("Rule", name="outer"), Obj("Rule", name="top")]
            for f in frames:
                cm.call(state.rule_stack, "push", f)
            ref = Ref()
            for i, (pos, depth, force, sup, rname) in enumerate(hist):
                state.pos = pos
                state.neg_pred_depth = depth
                state.__dict__["_suppress_failures"] = sup
                kwargs = {"force": force}
                if rname is not None:
                    kwargs["rule_name"] = rname
                cm.call(state, "fail", f"L{i}", **kwargs)
                ref.fail(f"L{i}", pos, "top", frames, depth, force, sup, rname)
        except ModelRaise as err:
            bad.append(("fail() raises", f"{hist}: {err}"))
            continue
        desc = "; ".join(f"fail(L{i}) at {p}, depth {d}{', force' if f else ''}{', suppressed' if s_ else ''}{'' if r is None else f', rule_name={r!r}'}" for i, (p, d, f, s_, r) in enumerate(hist))
        got = (model_attr(cm, state, "furthest_pos"), dict(model_attr(cm, state, "furthest_expected")), dict(model_attr(cm, state, "furthest_unexpected")))
        want = (ref.pos, ref.exp, ref.unexp)
        if got[0] != want[0]:
            bad.append(("the furthest position is not the greatest position a recorded failure had", f"{desc}: furthest_pos {got[0]}, expected {want[0]}"))
        elif got[1:] != want[1:]:
            names = set(got[1]) | set(got[2])
            if "" in names:
                bad.append(("a label is filed under the empty rule name", f"{desc}: expected {got[1]}, unexpected {got[2]}"))
            else:
                bad.append(("labels are filed under the wrong rule, side or position", f"{desc}: expected {got[1]} / unexpected {got[2]}, reference {want[1]} / {want[2]}"))
        elif want[0] >= 0 and [getattr(x, "name", x) for x in model_attr(cm, state, "furthest_stack")] != [f.name for f in ref.stack]:
            bad.append(("the rule stack of the furthest failure is not recorded", f"{desc}: {model_attr(cm, state, 'furthest_stack')}"))
    return n, bad
