"""Model objects for the order-abstraction evaluator: classes of the repository
instantiated and called through their syntax trees (never imported).

`ClassModel` resolves `(kind, method)` through the repository's class table (MRO of
repository classes only), evaluates `__init__` to build an object, treats `@property`
getters as attributes, `NamedTuple` classes as records of their annotated fields, and
generator methods as functions returning the list of yielded values.
"""

from __future__ import annotations

import ast
from typing import Any, Callable

from .core import AnalysisError
from .ordabs import Ev, Obj
from .repo import Repo


class ClassModel:
    def __init__(self, repo: Repo, rel: str, where: str, extra_env: dict | None = None, max_steps: int = 50000):
        self.repo = repo
        self.rel = rel
        self.where = where
        self.max_steps = max_steps
        self.classes: dict[str, ast.ClassDef] = dict(repo.mod(rel).classes())
        self.env: dict[str, Any] = dict(extra_env or {})
        for cname in self.classes:
            self.env[cname] = self._ctor(cname)
        self._cache: dict[tuple[str, str], Callable | None] = {}

    # --- method table interface used by Ev
    def get(self, key: tuple[str, str]) -> Callable | None:
        if key in self._cache:
            return self._cache[key]
        kind, name = key
        want_prop = name.startswith("@")
        mname = name[1:] if want_prop else name
        fn = self._resolve(kind, mname)
        out: Callable | None = None
        if fn is not None:
            is_prop = any(ast.unparse(d) == "property" for d in fn.decorator_list)
            if is_prop == want_prop:
                out = self._method(fn)
        self._cache[key] = out
        return out

    def _mro(self, cname: str) -> list[str]:
        seen, order, work = set(), [], [cname]
        while work:
            c = work.pop(0)
            if c in seen or c not in self.classes:
                continue
            seen.add(c)
            order.append(c)
            for b in self.classes[c].bases:
                t = ast.unparse(b).split("[")[0]
                work.append(t)
        return order

    def _resolve(self, cname: str, mname: str) -> ast.FunctionDef | None:
        for c in self._mro(cname):
            for n in reversed(self.classes[c].body):
                if isinstance(n, ast.FunctionDef) and n.name == mname:
                    return n
        return None

    def _ev(self) -> Ev:
        return Ev(dict(self.env), self.where, self, self.max_steps)  # type: ignore[arg-type]

    def _method(self, fn: ast.FunctionDef) -> Callable:
        def call(recv: Obj, *args: Any, **kwargs: Any) -> Any:
            return self._ev().closure(fn, base_env=dict(self.env))(recv, *args, **kwargs)

        return call

    def _ctor(self, cname: str) -> Callable:
        def make(*args: Any, **kwargs: Any) -> Obj:
            c = self.classes[cname]
            obj = Obj(tuple(self._mro(cname)))
            if any(ast.unparse(b) == "NamedTuple" for b in c.bases):
                fields = [n.target.id for n in c.body if isinstance(n, ast.AnnAssign) and isinstance(n.target, ast.Name)]
                if len(args) + len(kwargs) != len(fields):
                    raise AnalysisError(f"{self.where}: {cname}() takes {fields}")
                for f, v in zip(fields, args):
                    obj.__dict__[f] = v
                obj.__dict__.update(kwargs)
                obj.__dict__["_fields"] = tuple(fields)
                return obj
            init = self._resolve(cname, "__init__")
            if init is not None:
                self._method(init)(obj, *args, **kwargs)
            return obj

        return make

    def new(self, cname: str, *args: Any, **kwargs: Any) -> Obj:
        return self.env[cname](*args, **kwargs)

    def call(self, obj: Obj, mname: str, *args: Any, **kwargs: Any) -> Any:
        for k in obj.kinds:
            m = self.get((k, mname))
            if m is not None:
                return m(obj, *args, **kwargs)
            p = self.get((k, "@" + mname))
            if p is not None:
                return p(obj)
        raise AnalysisError(f"anchor vanished: {self.where}: no method {mname} on {obj.kinds}")
