"""Model objects for the order-abstraction evaluator: classes of the repository
instantiated and called through their syntax trees (never imported).

`ClassModel` resolves `(kind, method)` through the repository's class table (MRO of
repository classes only), evaluates `__init__` to build an object, treats `@property`
getters as attributes, `NamedTuple` classes as records of their annotated fields, and
generator methods as functions returning the list of yielded values.
"""

from __future__ import annotations

import ast
from typing import Any, Callable

from .core import AnalysisError
from .ordabs import Ev, ModelRaise, Obj
from .repo import Repo


class ClassModel:
    def __init__(self, repo: Repo, rel: str | list[str], where: str, extra_env: dict | None = None, max_steps: int = 50000):
        self.repo = repo
        self.rels = [rel] if isinstance(rel, str) else list(rel)
        self.rel = self.rels[0]
        self.where = where
        self.max_steps = max_steps
        self.classes: dict[str, ast.ClassDef] = {}
        self.functions: dict[str, ast.FunctionDef] = {}
        self.env: dict[str, Any] = {}
        # module-level names are per module: two modelled files may use one name for different tables
        self.mod_env: dict[str, dict[str, Any]] = {r: {} for r in self.rels}
        self.class_rel: dict[str, str] = {}
        self.func_rel: dict[int, str] = {}
        # helpers the modelled files import from other modules of the package (`from .pairs import locate_line`,
        # `from pest.lines import LineTable`): those modules join the model, behind the named ones (a name the named
        # files define keeps its meaning)
        explicit = len(self.rels)
        self._follow_imports()
        for i, r in enumerate(self.rels):
            m = repo.mod(r)
            for cname, c in m.classes().items():
                if cname not in self.classes:
                    self.classes[cname] = c
                    self.class_rel[cname] = r
            seen_here: set[str] = set()
            for n in m.tree.body:
                if isinstance(n, ast.FunctionDef):
                    reg = next((d for d in n.decorator_list if ast.unparse(d).split("(")[0].endswith(".register")), None)
                    if reg is not None:
                        # @f.register / @f.register(Type): one arm of a functools.singledispatch function
                        target = ast.unparse(reg).split("(")[0].rsplit(".", 1)[0]
                        if isinstance(reg, ast.Call) and reg.args:
                            types = [ast.unparse(a) for a in reg.args]
                        elif n.args.args and n.args.args[0].annotation is not None:
                            types = [t.strip() for t in ast.unparse(n.args.args[0].annotation).split("|")]
                        else:
                            types = []
                        if not hasattr(self, "dispatch"):
                            self.dispatch: dict[str, list[tuple[list[str], ast.FunctionDef]]] = {}
                        self.dispatch.setdefault(target, []).append(([t.split(".")[-1] for t in types], n))
                        self.func_rel[id(n)] = r
                        continue
                    if i >= explicit and n.name in self.functions and n.name not in seen_here:
                        continue  # an imported module does not redefine a function of the named files
                    seen_here.add(n.name)
                    self.functions[n.name] = n  # last definition wins (overloads)
                    self.func_rel[id(n)] = r
            for k, v in m.constants().items():
                if isinstance(v, (int, str, bool)) or v is None:
                    self.env.setdefault(k, v)
                    self.mod_env[r][k] = v
        for cname, c in self.classes.items():
            if any(ast.unparse(b).split(".")[-1] in ("Enum", "IntEnum", "StrEnum", "Flag", "IntFlag") for b in c.bases):
                from .ordabs import Sym

                self.env[cname] = Sym(cname)  # members are opaque named constants: TokenKind.STRING
            else:
                self.env[cname] = self._ctor(cname)
        for fname, fn in self.functions.items():
            self.env[fname] = self._function(fn)
        for fname, arms in getattr(self, "dispatch", {}).items():
            if fname in self.functions and any(ast.unparse(d).split(".")[-1] == "singledispatch" for d in self.functions[fname].decorator_list):
                self.env[fname] = self._dispatcher(self.functions[fname], arms)
        # `import operator` / `from operator import lt`: pure functions of the standard library, on plain values
        from .ordabs import PureModule

        for r in self.rels:
            for n in repo.mod(r).tree.body:
                if isinstance(n, ast.Import):
                    for a in n.names:
                        if a.name in PureModule.SAFE:
                            self.env.setdefault(a.asname or a.name, PureModule(a.name))
                elif isinstance(n, ast.ImportFrom) and n.module == "string" and not n.level:
                    import string as _string

                    for a in n.names:
                        if isinstance(getattr(_string, a.name, None), str):
                            self.env.setdefault(a.asname or a.name, getattr(_string, a.name))  # hexdigits, ascii_letters, ...
                elif isinstance(n, ast.ImportFrom) and n.module in PureModule.SAFE and not n.level:
                    for a in n.names:
                        if a.name in PureModule.SAFE[n.module]:
                            self.env.setdefault(a.asname or a.name, PureModule(n.module).get(a.name))
        self.env.update(extra_env or {})
        self._cache: dict[tuple[str, str], Callable | None] = {}
        self.load_tables()

    def _follow_imports(self) -> None:
        """Append to self.rels the package modules from which the modelled files import functions or classes that are
        called in them (transitively, at most a handful: the package is small)."""
        py = set(self.repo.py_files)
        work = list(self.rels)
        while work:
            r = work.pop(0)
            if r not in py:
                continue
            tree = self.repo.mod(r).tree
            called = {n.func.id for n in ast.walk(tree) if isinstance(n, ast.Call) and isinstance(n.func, ast.Name)}
            for n in ast.walk(tree):
                if not isinstance(n, ast.ImportFrom) or not any((a.asname or a.name) in called for a in n.names):
                    continue
                mod = n.module or ""
                if n.level:
                    base = r.rsplit("/", n.level)[0]
                    cand = f"{base}/{mod.replace('.', '/')}" if mod else base
                elif mod == "pest" or mod.startswith("pest."):
                    cand = "src/" + mod.replace(".", "/")
                else:
                    continue
                for rel in (cand + ".py", cand + "/__init__.py"):
                    if rel in py and rel not in self.rels:
                        target = self.repo.mod(rel)
                        names = {a.name for a in n.names if (a.asname or a.name) in called}
                        if names & (set(target.functions()) | set(target.classes())):
                            self.rels.append(rel)
                            self.mod_env.setdefault(rel, {})
                            work.append(rel)
                        elif rel.endswith("__init__.py"):
                            # re-exported through the package: find the module that defines the name
                            for rel2 in sorted(py):
                                t2 = self.repo.mod(rel2)
                                if rel2 not in self.rels and names & (set(t2.functions()) | set(t2.classes())) and rel2.startswith(cand):
                                    self.rels.append(rel2)
                                    self.mod_env.setdefault(rel2, {})
                                    work.append(rel2)

    def load_tables(self) -> None:
        """Module-level tables (dict / set / tuple displays over constants, enum members, compiled patterns), in
        source order; anything the evaluator cannot build is left unbound and reported when something needs it.
        Called again once stand-ins (the regular-expression engine) are installed."""
        from .ordabs import ModelRaise, Unsupported

        repo = self.repo
        for r in self.rels:
            for n in repo.mod(r).tree.body:
                tgt = n.targets[0] if isinstance(n, ast.Assign) and len(n.targets) == 1 else n.target if isinstance(n, ast.AnnAssign) and n.value is not None else None
                if isinstance(tgt, ast.Name) and tgt.id not in self.mod_env[r] and isinstance(n.value, (ast.Dict, ast.Set, ast.List, ast.Tuple, ast.Call, ast.DictComp, ast.BinOp)):
                    if tgt.id in self.env and callable(self.env[tgt.id]) and tgt.id in self.classes:
                        continue
                    try:
                        v = Ev({**self.env, **self.mod_env[r]}, self.where, self, self.max_steps).ev(n.value)  # type: ignore[arg-type]
                    except (Unsupported, ModelRaise, Exception):  # noqa: BLE001
                        continue
                    self.mod_env[r][tgt.id] = v
                    self.env.setdefault(tgt.id, v)

    def _dispatcher(self, main: ast.FunctionDef, arms: list) -> Callable:
        """functools.singledispatch on the model: the arm registered for the nearest class of the first argument."""
        default = self._function(main)
        compiled = [(types, self._function(fn)) for types, fn in arms]
        prim = {"str": str, "int": int, "list": list, "tuple": tuple, "dict": dict, "bool": bool, "set": set, "frozenset": frozenset, "float": float}

        def call(*args: Any, **kwargs: Any) -> Any:
            if not args:
                return default(*args, **kwargs)
            v = args[0]
            if isinstance(v, Obj):
                best = None
                for types, f in compiled:
                    for t in types:
                        if t in v.kinds and (best is None or v.kinds.index(t) < best[0]):
                            best = (v.kinds.index(t), f)
                if best is not None:
                    return best[1](*args, **kwargs)
                if any("object" in types for types, _ in compiled):
                    return next(f for types, f in compiled if "object" in types)(*args, **kwargs)
                return default(*args, **kwargs)
            for types, f in compiled:
                if any(t in prim and type(v) is prim[t] for t in types):
                    return f(*args, **kwargs)
            return default(*args, **kwargs)

        return call

    def _function(self, fn: ast.FunctionDef) -> Callable:
        def call(*args: Any, **kwargs: Any) -> Any:
            return self._ev().closure(fn, base_env=self.env, extra=self.mod_env.get(self.func_rel.get(id(fn), ""), None))(*args, **kwargs)

        return call

    def get_after(self, owner: str, obj: Obj, mname: str) -> Callable | None:
        """The method `mname` of the class after `owner` in obj's MRO (super())."""
        mro = self._mro(obj.kinds[0])
        if owner not in mro:
            return None
        for c in mro[mro.index(owner) + 1:]:
            for n in reversed(self.classes[c].body):
                if isinstance(n, ast.FunctionDef) and n.name == mname:
                    return self._method(n, c)
        return None

    _NOATTR = object()

    def class_attr(self, cname: str, attr: str) -> Any:
        """A class-level attribute: evaluated once and shared by every model instance, as in Python."""
        if not hasattr(self, "_class_attrs"):
            self._class_attrs: dict[tuple[str, str], Any] = {}
        for c in self._mro(cname):
            key = (c, attr)
            if key in self._class_attrs:
                return self._class_attrs[key]
            for n in self.classes[c].body:
                tgt = n.targets[0] if isinstance(n, ast.Assign) and len(n.targets) == 1 else n.target if isinstance(n, ast.AnnAssign) and n.value is not None else None
                if isinstance(tgt, ast.Name) and tgt.id == attr:
                    self._class_attrs[key] = self._ev().ev(n.value)
                    return self._class_attrs[key]
        return self._NOATTR

    def enum_truth(self, member: str) -> bool:
        """bool(Klass.MEMBER) as Python defines it: True for a member of a plain Enum (object truthiness) unless the
        class defines __bool__; the truth of the value for IntEnum / IntFlag / Flag / StrEnum members."""
        from .ordabs import Unsupported

        cname, _, mname = member.partition(".")
        c = self.classes.get(cname)
        if c is None:
            return True  # an opaque named constant of a class that is not modelled: an object
        if any(isinstance(n, ast.FunctionDef) and n.name == "__bool__" for n in c.body):
            raise Unsupported(f"{self.where}: truth of {member}: the enumeration defines __bool__")
        bases = {ast.unparse(b).split(".")[-1] for b in c.bases}
        if bases <= {"Enum"}:
            return True
        for n in c.body:
            if isinstance(n, ast.Assign) and isinstance(n.targets[0], ast.Name) and n.targets[0].id == mname:
                try:
                    return bool(ast.literal_eval(n.value))
                except ValueError as err:
                    raise Unsupported(f"{self.where}: truth of {member}: its value is not a literal") from err
        raise Unsupported(f"{self.where}: truth of {member}: no such member")

    def int_enum_member(self, cname: str, mname: str) -> int | None:
        """The integer a member of a modelled IntEnum / IntFlag is (None for any other class or a non-literal value)."""
        c = self.classes.get(cname)
        if c is None or not any(ast.unparse(b).split(".")[-1] in ("IntEnum", "IntFlag") for b in c.bases):
            return None
        for n in c.body:
            if isinstance(n, ast.Assign) and isinstance(n.targets[0], ast.Name) and n.targets[0].id == mname and isinstance(n.value, ast.Constant) and isinstance(n.value.value, int):
                return n.value.value
        return None

    def set_class_attr(self, cname: str, attr: str, value: Any) -> None:
        """``cls.attr = value``: stored on that class, found by its instances and subclasses through the MRO."""
        if not hasattr(self, "_class_attrs"):
            self._class_attrs = {}
        self._class_attrs[(cname, attr)] = value

    def match_args(self, cname: str) -> tuple | None:
        for c in self._mro(cname):
            for n in self.classes[c].body:
                if isinstance(n, ast.Assign) and isinstance(n.targets[0], ast.Name) and n.targets[0].id == "__match_args__" and isinstance(n.value, ast.Tuple):
                    return tuple(e.value for e in n.value.elts if isinstance(e, ast.Constant))
        return None

    # --- method table interface used by Ev
    def get(self, key: tuple[str, str]) -> Callable | None:
        if key in self._cache:
            return self._cache[key]
        kind, name = key
        want_prop = name.startswith("@")
        mname = name[1:] if want_prop else name
        res = self._resolve_owner(kind, mname)
        out: Callable | None = None
        if res is not None:
            owner, fn = res
            is_prop = any(ast.unparse(d) == "property" for d in fn.decorator_list)
            if is_prop == want_prop:
                out = self._method(fn, owner)
        elif not want_prop and kind in self.classes:
            # a method given as a class-level callable (`__add__ = _binary(operator.add)`): evaluated once, called with
            # the receiver first, the way Python binds a plain function found on the class
            try:
                v = self.class_attr(kind, mname)
            except Exception:  # noqa: BLE001
                v = self._NOATTR
            if v is not self._NOATTR and callable(v) and not isinstance(v, Obj):
                out = (lambda f: lambda recv, *a, **kw: f(recv, *a, **kw))(v)
        self._cache[key] = out
        return out

    def _mro(self, cname: str) -> list[str]:
        seen, order, work = set(), [], [cname]
        while work:
            c = work.pop(0)
            if c in seen or c not in self.classes:
                continue
            seen.add(c)
            order.append(c)
            for b in self.classes[c].bases:
                t = ast.unparse(b).split("[")[0]
                work.append(t)
        return order

    def _resolve_owner(self, cname: str, mname: str) -> tuple[str, ast.FunctionDef] | None:
        for c in self._mro(cname):
            for n in reversed(self.classes[c].body):
                if isinstance(n, ast.FunctionDef) and n.name == mname:
                    return c, n
        return None

    def _resolve(self, cname: str, mname: str) -> ast.FunctionDef | None:
        r = self._resolve_owner(cname, mname)
        return r[1] if r else None

    def _ev(self) -> Ev:
        return Ev(self.env, self.where, self, self.max_steps)  # type: ignore[arg-type]  # closures copy the environment per call

    def _method(self, fn: ast.FunctionDef, owner: str | None = None) -> Callable:
        decos = {ast.unparse(d).split(".")[-1] for d in fn.decorator_list}

        def call(recv: Obj, *args: Any, **kwargs: Any) -> Any:
            extra = dict(self.mod_env.get(self.class_rel.get(owner or "", ""), ()))
            extra["__owner__"] = owner
            extra["__self__"] = recv
            f = self._ev().closure(fn, base_env=self.env, extra=extra)
            if "staticmethod" in decos:
                return f(*args, **kwargs)
            if "classmethod" in decos:
                return f(self.env.get(recv.kinds[0] if isinstance(recv, Obj) else owner or ""), *args, **kwargs)
            return f(recv, *args, **kwargs)

        return call

    def _ctor(self, cname: str) -> Callable:
        def make(*args: Any, **kwargs: Any) -> Obj:
            c = self.classes[cname]
            obj = Obj(tuple(self._mro(cname)))
            if any(ast.unparse(b) == "NamedTuple" for b in c.bases):
                decl = [(n.target.id, n.value) for n in c.body if isinstance(n, ast.AnnAssign) and isinstance(n.target, ast.Name)]
                fields = [f for f, _ in decl]
                if len(args) > len(fields) or any(k not in fields for k in kwargs):
                    raise AnalysisError(f"{self.where}: {cname}() takes {fields}")
                for f, v in zip(fields, args):
                    obj.__dict__[f] = v
                obj.__dict__.update(kwargs)
                for f, default in decl:
                    if f not in obj.__dict__:
                        if default is None:
                            raise AnalysisError(f"{self.where}: {cname}() takes {fields}")
                        obj.__dict__[f] = self._ev().ev(default)
                obj.__dict__["_fields"] = tuple(fields)
                return obj
            r = self._resolve_owner(cname, "__init__")
            if r is not None:
                self._method(r[1], r[0])(obj, *args, **kwargs)
            elif any(ast.unparse(d).split("(")[0].split(".")[-1] == "dataclass" for d in c.decorator_list):
                fields = [(n.target.id, n.value) for n in c.body if isinstance(n, ast.AnnAssign) and isinstance(n.target, ast.Name)]
                if len(args) > len(fields):
                    raise AnalysisError(f"{self.where}: {cname}() takes {[f for f, _ in fields]}")
                given = dict(zip([f for f, _ in fields], args))
                given.update(kwargs)
                for f, default in fields:
                    if f in given:
                        obj.__dict__[f] = given[f]
                    elif default is not None:
                        obj.__dict__[f] = self._ev().ev(default)
                    else:
                        raise AnalysisError(f"{self.where}: {cname}() missing field {f}")
            return obj

        make._sa_class = cname  # type: ignore[attr-defined]  # isinstance(x, <a variable holding this class>) resolves through it
        return make

    def new(self, cname: str, *args: Any, **kwargs: Any) -> Obj:
        return self.env[cname](*args, **kwargs)

    def call(self, obj: Obj, mname: str, *args: Any, **kwargs: Any) -> Any:
        for k in obj.kinds:
            m = self.get((k, mname))
            if m is not None:
                return m(obj, *args, **kwargs)
            p = self.get((k, "@" + mname))
            if p is not None:
                return p(obj)
        raise AnalysisError(f"anchor vanished: {self.where}: no method {mname} on {obj.kinds}")


def new_parser_state(cm: ClassModel, text: str, pos: int, parser: Any, where: str) -> Obj:
    """ParserState(...) with the arguments bound by role (the parameter that seeds
    self.input / self.pos / self.parser), so a reordered or renamed signature is followed."""
    from .binding import field_sources  # noqa: PLC0415

    init = cm._resolve("ParserState", "__init__")  # noqa: SLF001
    if init is None:
        raise AnalysisError(f"{where}: anchor vanished: ParserState.__init__")
    fs = field_sources(init)
    missing = [f for f in ("input", "pos", "parser") if f not in fs]
    if missing:
        raise AnalysisError(f"{where}: ParserState.__init__ does not set {missing} from a parameter")
    st = cm.new("ParserState", **{fs["input"]: text, fs["pos"]: pos, fs["parser"]: parser})
    count_checkpoints(cm, st)
    return st


def count_checkpoints(cm: ClassModel, st: Obj) -> None:
    """Count open checkpoints by the calls themselves (checkpoint() opens one, ok() and restore() close one), whatever
    the state keeps them in: every `state.checkpoint()` the evaluated source performs goes through these wrappers."""
    st.__dict__["_sa_open"] = 0
    st.__dict__["_sa_cm"] = cm

    def wrap(name: str, delta: int):  # noqa: ANN202
        m = None
        for k in st.kinds:
            m = cm.get((k, name))
            if m is not None:
                break
        if m is None:
            raise AnalysisError(f"{cm.where}: anchor vanished: ParserState.{name}")

        def call(*a: Any, **kw: Any) -> Any:
            r = m(st, *a, **kw)
            st.__dict__["_sa_open"] += delta
            return r

        return call

    for name, delta in (("checkpoint", 1), ("ok", -1), ("restore", -1)):
        st.__dict__[name] = wrap(name, delta)


def model_attr(cm: ClassModel, obj: Obj, name: str) -> Any:
    """obj.name as the evaluated program sees it: an instance attribute, or a property of its class."""
    if name in obj.__dict__:
        return obj.__dict__[name]
    for k in obj.kinds:
        p = cm.get((k, "@" + name))
        if p is not None:
            return p(obj)
    raise AnalysisError(f"{cm.where}: anchor vanished: {obj.kinds[0]}.{name} is neither an attribute nor a property")


def counter_value(st: Obj, counter: Any) -> Any:
    """The integer a snapshotting counter of the model state holds, read through its own __int__ (whatever its
    fields are called); a recorder stub or plain int is returned as it is."""
    if isinstance(counter, Obj) and "Recorder" not in counter.kinds:
        cm = st.__dict__.get("_sa_cm")
        if cm is not None:
            for k in counter.kinds:
                m = cm.get((k, "__int__"))
                if m is not None:
                    return m(counter)
        return counter.__dict__.get("_value")
    return counter.__dict__.get("_value") if isinstance(counter, Obj) else counter


def stack_items(st: Obj, stack: Any) -> list:
    """The entries of a model Stack bottom to top, read through its own __iter__ (whatever it keeps them in)."""
    if isinstance(stack, Obj) and "Recorder" not in stack.kinds:
        cm = st.__dict__.get("_sa_cm")
        if cm is not None:
            for k in stack.kinds:
                m = cm.get((k, "__iter__"))
                if m is not None:
                    return list(m(stack))
    return list(stack.__dict__.get("items", [])) if isinstance(stack, Obj) else list(stack)


def open_checkpoints(st: Obj) -> int:
    if "_sa_open" not in st.__dict__:
        raise AnalysisError("open_checkpoints: the model state was not built by new_parser_state")
    return st.__dict__["_sa_open"]


def maybe_install_re(cm: ClassModel) -> None:
    """install_re() if one of the modelled files imports a regular-expression engine under the name `re` (files that
    never did may start to: a line table built with a pattern instead of splitlines())."""
    for r in cm.rels:
        for n in cm.repo.mod(r).tree.body:
            if isinstance(n, ast.Import) and any((a.asname or a.name) == "re" for a in n.names):
                if not isinstance(cm.env.get("re"), Obj):
                    cm.env["re"] = Obj("re")
                install_re(cm)
                return


def install_re(cm: ClassModel) -> None:
    """The repository's regular-expression engine as an oracle on the model (sa/rxoracle.py): `re` in the model
    carries the engine's own flag values, re.compile returns a model Pattern that records pattern and flags and
    answers match / fullmatch / search through the engine; module-level ``RE_X = re.compile(...)`` constants of
    the modelled files are rebuilt through it."""
    from . import rxoracle  # noqa: PLC0415

    want = rxoracle.module_engine(cm.repo, cm.rels)
    rxoracle = rxoracle.engine(want)  # the third-party regex module, or the standard library's re, as the files import it
    restub = cm.env.get("re")
    if isinstance(restub, Obj):
        restub.__dict__.update(rxoracle.FLAGS)

    def compile_(_s: Obj, pat: str, flags: int = 0) -> Obj:
        try:
            rx = rxoracle.compile_(pat, flags)
        except rxoracle.error as err:
            raise ModelRaise(f"regex.error: {err}") from err
        o = Obj("Pattern", pattern=pat, flags=flags)

        def wrap(m):  # noqa: ANN001, ANN202
            if m is None:
                return None
            mo = Obj("Match")
            mo.__dict__.update(group=lambda *a: m.group(*a), end=lambda *a: m.end(*a), start=lambda *a: m.start(*a), groups=lambda: m.groups(), span=lambda *a: m.span(*a),
                               __getitem__=lambda i: m[i])
            return mo

        o.__dict__.update(match=lambda s, *a: wrap(rx.match(s, *a)), fullmatch=lambda s, *a: wrap(rx.fullmatch(s, *a)), search=lambda s, *a: wrap(rx.search(s, *a)),
                          finditer=lambda s, *a: [wrap(m) for m in rx.finditer(s, *a)], findall=lambda s, *a: rx.findall(s, *a), sub=lambda repl, s, *a: rx.sub(repl, s, *a) if isinstance(repl, str) else _no_callable_repl(),
                          split=lambda s, *a: rx.split(s, *a))
        return o

    def _no_callable_repl() -> None:
        from .ordabs import Unsupported  # noqa: PLC0415

        raise Unsupported(f"{cm.where}: Pattern.sub with a callable replacement")

    cm._cache[("re", "compile")] = compile_  # noqa: SLF001
    cm._cache[("re", "escape")] = lambda _s, x: rxoracle.escape(x)  # noqa: SLF001
    for r in cm.rels:
        for n in cm.repo.mod(r).tree.body:
            if isinstance(n, ast.Assign) and isinstance(n.targets[0], ast.Name) and isinstance(n.value, ast.Call) and ast.unparse(n.value.func) in ("re.compile", "regex.compile"):
                try:
                    v = cm._ev().ev(n.value)  # noqa: SLF001
                except Exception:  # noqa: BLE001, S112
                    continue  # left unbound: reported as unsupported if something needs it
                cm.env[n.targets[0].id] = v
                cm.mod_env[r][n.targets[0].id] = v
    cm.load_tables()  # tables that mention the rebuilt patterns
