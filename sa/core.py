"""Plumbing shared by every check: findings, known-findings, evidence, exit codes.

Exit codes (DESIGN §8):
  0  every obligation discharged or listed as a known finding
  1  at least one violation not listed in known_findings.json (VIOLATION line printed)
  2  ANALYSIS-ERROR: the analyser could not do its job (vanished anchor, construct
     outside its vocabulary, instance count under the floor).  Never a VIOLATION.
"""

from __future__ import annotations

import hashlib
import json
import os
import sys
import time
import traceback
from dataclasses import dataclass, field
from pathlib import Path

VERIF = Path(__file__).resolve().parent.parent
REPO = Path(os.environ.get("SA_REPO", "/repo"))
KNOWN_FILE = VERIF / "known_findings.json"


class AnalysisError(Exception):
    """The analyser cannot decide (not: the code is wrong)."""


@dataclass
class Finding:
    rule: str  # e.g. "R3", "E3-escape", "live-trace"
    construct: str  # e.g. "src/pest/grammar/expressions/postfix.py::Repeat.parse"
    signature: str  # normalised, line-number free description of *which* violation
    message: str  # human readable, one line
    detail: dict = field(default_factory=dict)  # path / call chain / witness ...

    @property
    def key(self) -> str:
        return f"{self.rule}|{self.construct}|{self.signature}"


@dataclass
class Obligation:
    rule: str
    construct: str
    what: str
    ok: bool
    nontrivial: bool = True


class Check:
    """Collects what one property check analysed and found."""

    def __init__(self, prop: str, tier: str, explanation: str):
        self.prop = prop
        self.tier = tier
        self.explanation = explanation
        self.t0 = time.time()
        self.findings: dict[str, Finding] = {}
        self.obligations = 0
        self.discharged = 0
        self.evaluations = 0  # rule-instance x path evaluations
        self.nontrivial: set[str] = set()
        self.samples: list[object] = []
        self.units: dict[str, int] = {}  # what was analysed: name -> count
        self.assumptions: list[str] = []
        self.rules: list[str] = []
        self.notes: list[str] = []

    # -- recording
    def count(self, unit: str, n: int = 1) -> None:
        self.units[unit] = self.units.get(unit, 0) + n

    def oblige(
        self,
        rule: str,
        construct: str,
        what: str,
        ok: bool,
        *,
        nontrivial: bool = True,
        finding: Finding | None = None,
        sample: bool = False,
    ) -> None:
        """One obligation: counted, and if not ok its finding is recorded."""
        self.obligations += 1
        if nontrivial:
            self.nontrivial.add(f"{rule}|{construct}|{what}")
        if ok:
            self.discharged += 1
        else:
            f = finding or Finding(rule, construct, what, what)
            self.findings.setdefault(f.key, f)
        if sample or (len(self.samples) < 12 and nontrivial and self.obligations % 7 == 1):
            self.samples.append(
                {"rule": rule, "construct": construct, "obligation": what, "verdict": "ok" if ok else "VIOLATED"}
            )

    def add(self, f: Finding) -> None:
        self.obligations += 1
        self.nontrivial.add(f.key)
        self.findings.setdefault(f.key, f)

    def require(self, cond: bool, msg: str) -> None:
        if not cond:
            raise AnalysisError(msg)

    def defer_error(self, msg: str) -> None:
        """An analysis error that must not hide violations found by other rules: reported at the end, and it
        decides the exit code (2) only if nothing was violated."""
        if not hasattr(self, "deferred"):
            self.deferred: list[str] = []
        if msg not in self.deferred:
            self.deferred.append(msg)

    def attempt(self, fn) -> bool:  # noqa: ANN001
        """Run one rule; what it cannot analyse is deferred (exit 2 at the end, unless something is violated) so that
        the rules after it - the semantic ones in particular - still decide what they can."""
        try:
            fn()
        except AnalysisError as err:
            self.defer_error(str(err))
            return False
        return True

    def second_opinion(self, fn, decided_by: str, deciding_rule_ok: bool) -> None:  # noqa: ANN001
        """Run a *structural* rule (one that reads the shape of the code) whose clause is also decided by a
        semantic rule.  Where the semantic rule holds, the code is right and a structural mismatch - or the
        structural reading losing its anchors - means only that the code is no longer written the way the reading
        expects: it becomes a note.  Where the semantic rule fails as well, the structural findings are reported
        (they usually say *where*)."""
        shadow = Check(self.prop, self.tier, "")
        err: str | None = None
        try:
            fn(shadow)
        except AnalysisError as e:
            err = str(e)
        except (TypeError, ValueError, KeyError, IndexError, AttributeError) as e:
            # a shape reading that trips over code it was not written for is "not applicable", like a vanished anchor
            err = f"the structural reading does not fit this code ({type(e).__name__}: {e})"
        for u, k in shadow.units.items():
            self.count(u, k)
        self.notes.extend(shadow.notes)
        self.samples.extend(shadow.samples[:2])
        if deciding_rule_ok:
            self.obligations += shadow.obligations
            self.discharged += shadow.obligations
            self.nontrivial |= shadow.nontrivial
            for f in shadow.findings.values():
                self.notes.append(f"second opinion only ({decided_by} holds): {f.rule} {f.construct}: {f.signature}")
            if err:
                self.notes.append(f"second opinion not applicable to this shape ({decided_by} decides): {err}")
            for d in getattr(shadow, "deferred", []):
                self.notes.append(f"second opinion undecided ({decided_by} decides): {d}")
            return
        self.obligations += shadow.obligations
        self.discharged += shadow.discharged
        self.nontrivial |= shadow.nontrivial
        for k, f in shadow.findings.items():
            self.findings.setdefault(k, f)
        for d in getattr(shadow, "deferred", []):
            self.defer_error(d)
        if err:
            self.defer_error(err)

    def floor(self, unit: str, minimum: int) -> None:
        got = self.units.get(unit, 0)
        if got < minimum:
            raise AnalysisError(
                f"instance count under floor: {unit} = {got} < {minimum} "
                "(the rule would pass vacuously; anchors moved?)"
            )


def load_known() -> dict:
    if not KNOWN_FILE.exists():
        return {"known": [], "fixed": []}
    return json.loads(KNOWN_FILE.read_text())


def finish(check: Check) -> int:
    """Print results, write evidence and reports, return the exit code."""
    known = load_known()
    known_keys: dict[str, dict] = {}
    for k in known.get("known", []):
        known_keys[f"{k['rule']}|{k['construct']}|{k['signature']}"] = k

    violations: list[Finding] = []
    listed: list[Finding] = []
    for f in check.findings.values():
        (listed if f.key in known_keys else violations).append(f)

    for f in sorted(listed, key=lambda x: x.key):
        print(f"KNOWN-FINDING: property={check.prop} {f.rule} {f.construct} {f.message}")

    rc = 0
    report_paths = []
    if violations:
        rc = 1
        rep_dir = VERIF / "reports"
        rep_dir.mkdir(exist_ok=True)
        for f in sorted(violations, key=lambda x: x.key):
            digest = hashlib.sha1(f.key.encode()).hexdigest()[:12]
            path = rep_dir / f"{check.prop}-{digest}.json"
            path.write_text(
                json.dumps(
                    {
                        "property": check.prop,
                        "rule": f.rule,
                        "construct": f.construct,
                        "signature": f.signature,
                        "message": f.message,
                        "detail": f.detail,
                        "repo": str(REPO),
                    },
                    indent=1,
                    default=str,
                )
            )
            report_paths.append(str(path))
            print(f"  {f.rule} {f.construct}: {f.message}")
            for k, v in f.detail.items():
                print(f"      {k}: {v}")
            print(f"VIOLATION property={check.prop} replay={path}")

    for msg in getattr(check, "deferred", []):
        print(f"ANALYSIS-ERROR: {msg}")
    if getattr(check, "deferred", []) and rc == 0:
        rc = 2

    wall = time.time() - check.t0
    seed = int(os.environ.get("VERIF_SEED", "0") or 0)
    evidence = {
        "property_id": check.prop,
        "tier": check.tier,
        "seed": seed,
        "level": "other",
        "coverage": {
            "explanation": check.explanation,
            "obligations": check.obligations,
            "discharged": check.discharged,
            "evaluations": max(check.evaluations, check.obligations),
            "distinct_nontrivial": len(check.nontrivial),
            "rule": (
                "static analysis: obligations are rule instances evaluated on constructs of /repo's "
                "current source (functions, template skeleton variants, abstract paths, call sites, table "
                "entries); an obligation is non-trivial when it involved at least one backtracking, "
                "raise, write or table-comparison event; distinct = distinct (rule, construct, obligation) keys"
            ),
            "rules_applied": check.rules,
            "analysed": check.units,
            "samples": check.samples[:40] or [{"note": "no obligations"}],
            "known_findings": sorted(f.key for f in listed),
            "violations": sorted(f.key for f in violations),
            "exhaustive": True,
            "notes": check.notes,
            "repo": str(REPO),
            "python": sys.version.split()[0],
        },
        "assumptions": check.assumptions,
        "wall_s": round(wall, 3),
        "violations": len(violations),
    }
    if str(REPO) == "/repo" and not os.environ.get("SA_NO_EVIDENCE"):
        ev_dir = VERIF / "evidence"
        ev_dir.mkdir(exist_ok=True)
        (ev_dir / f"{check.prop}.json").write_text(json.dumps(evidence, indent=1, default=str) + "\n")

    units = ", ".join(f"{k}={v}" for k, v in sorted(check.units.items()))
    print(
        f"[{check.prop} {check.tier}] obligations={check.obligations} discharged={check.discharged} "
        f"known={len(listed)} violations={len(violations)} wall={wall:.2f}s"
    )
    print(f"[{check.prop}] analysed: {units}")
    return rc


def run_guarded(fn) -> int:
    """Run a check body; tracebacks become ANALYSIS-ERROR exit 2, never exit 1."""
    try:
        return fn()
    except AnalysisError as e:
        print(f"ANALYSIS-ERROR: {e}")
        return 2
    except Exception:  # noqa: BLE001
        print("ANALYSIS-ERROR: analyser crashed")
        traceback.print_exc()
        return 2
