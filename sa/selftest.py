"""Both-way self-test of the checkers (thorough tier, DESIGN §7).

Variants are single-instance edits of /repo's *current* sources, written into a scratch
copy outside /repo and /verif (removed immediately) and analysed with ``SA_REPO`` — they
are never executed.  ``fire`` variants break one rule instance and the report must name
it; ``silent`` variants are behaviour-preserving rewrites and every rule must stay
quiet.  A variant whose ``old`` text is no longer present is skipped and counted (the
code moved on); if more than a third of a property's variants are skipped the catalogue
is stale and the run stops with ANALYSIS-ERROR.  A wrong outcome is ANALYSIS-ERROR
(the checker is broken), never a VIOLATION of /repo.
"""

from __future__ import annotations

import json
import os
import shutil
import subprocess
import sys
import tempfile
from concurrent.futures import ThreadPoolExecutor
from pathlib import Path

from .core import REPO, VERIF, AnalysisError, Check

POSTFIX = "src/pest/grammar/expressions/postfix.py"
CHOICE = "src/pest/grammar/expressions/choice.py"
PREFIX = "src/pest/grammar/expressions/prefix.py"
TERMINALS = "src/pest/grammar/expressions/terminals.py"
SEQUENCE = "src/pest/grammar/expressions/sequence.py"
RULE = "src/pest/grammar/rule.py"
STATE = "src/pest/state.py"
STACK = "src/pest/stack.py"
GEN = "src/pest/grammar/codegen/generate.py"
SCANNER = "src/pest/grammar/scanner.py"
GPARSER = "src/pest/grammar/parser.py"
UNESCAPE = "src/pest/grammar/unescape.py"
OPT = "src/pest/grammar/optimizer.py"
PRATT = "src/pest/pratt.py"
EXC = "src/pest/exceptions.py"
SKIPPERS = "src/pest/grammar/optimizers/skippers.py"
PARSER = "src/pest/parser.py"
PAIRS = "src/pest/pairs.py"

# (id, properties whose check must react, file, old, new, expectation, substring expected in the output for 'fire')
CATALOGUE: list[tuple] = [
    # ---- operator family, interpreter
    ("choice-no-restore", ["C03", "C05", "C08"], CHOICE, "                return True\n\n            state.restore()\n        return False", "                return True\n\n        return False", "fire", "Choice.parse"),
    ("optional-ok-instead-of-restore", ["C03", "C08"], POSTFIX, "            return True\n        state.restore()\n        return True", "            return True\n        state.ok()\n        return True", "fire", "Optional.parse"),
    ("optional-drops-pairs", ["C03", "C06"], POSTFIX, "            state.ok()\n            pairs.extend(children)\n            return True\n        state.restore()", "            state.ok()\n            return True\n        state.restore()", "fire", "Optional.parse"),
    ("repeat-trivia-outside-checkpoint", ["C04"], POSTFIX, "            state.checkpoint()\n            if not first:\n                # Trivia before an iteration is given back if the iteration fails.\n                state.parse_trivia(children)\n", "            if not first:\n                state.parse_trivia(children)\n            state.checkpoint()\n", "fire", "Repeat.parse"),
    ("sequence-trivia-after-last", ["C04"], SEQUENCE, "            if i < len(self.expressions) - 1:\n                state.parse_trivia(children)", "            if i < len(self.expressions):\n                state.parse_trivia(children)", "fire", "Sequence.parse"),
    ("pospred-no-restore-on-success", ["C03", "C05", "C08"], PREFIX, "        matched = self.expression.parse(state, [])\n        state.restore()\n        return matched", "        matched = self.expression.parse(state, [])\n        if matched:\n            state.ok()\n        else:\n            state.restore()\n        return matched", "fire", "PositivePredicate.parse"),
    ("negpred-leaks-pairs", ["C03", "C06", "C08"], PREFIX, "        state.neg_pred_depth += 1\n        matched = self.expression.parse(state, [])", "        state.neg_pred_depth += 1\n        matched = self.expression.parse(state, pairs)", "fire", "NegativePredicate.parse"),
    ("rule-pair-end-before-body", ["C06"], RULE, "                start=start,\n                end=state.pos,", "                start=start,\n                end=start,", "fire", "Rule.parse"),
    ("rule-atomic-depth-not-raised", ["C04"], RULE, "            with state.atomic_checkpoint():\n                state.atomic_depth += 1\n                state.hide_pairs = not self.modifier & COMPOUND\n                matched = self.expression.parse(state, children)", "            with state.atomic_checkpoint():\n                state.hide_pairs = not self.modifier & COMPOUND\n                matched = self.expression.parse(state, children)", "fire", "Rule.parse"),
    ("rule-frame-not-popped", ["C13"], RULE, "            matched = self.expression.parse(state, children)\n\n        state.rule_stack.pop()\n", "            matched = self.expression.parse(state, children)\n\n        if matched:\n            state.rule_stack.pop()\n", "fire", "Rule.parse"),
    ("pop-removes-on-failure", ["C05"], TERMINALS, "            value = state.user_stack.peek()\n            if state.input.startswith(value, state.pos):\n                state.user_stack.pop()\n                state.pos += len(value)\n                return True", "            value = state.user_stack.pop()\n            if state.input.startswith(value, state.pos):\n                state.pos += len(value)\n                return True", "silent-or-fire", "Pop.parse"),
    ("peekall-bottom-to-top", ["C05"], TERMINALS, "        for literal in reversed(state.user_stack):\n            # XXX: can `literal` be empty?", "        for literal in state.user_stack:\n            # XXX: can `literal` be empty?", "fire", "PeekAll.parse"),
    ("drop-no-empty-test", ["C05", "C07"], TERMINALS, "        if not state.user_stack.empty():\n            state.user_stack.pop()\n            return True\n        state.fail(\"drop from empty stack\")", "        state.user_stack.pop()\n        return True\n        state.fail(\"drop from empty stack\")", "fire", "Drop.parse"),
    ("push-before-child", ["C05"], TERMINALS, "        state.push(state.input[start : state.pos])\n        pairs.extend(children)", "        state.push(state.input[start:])\n        pairs.extend(children)", "fire", "Push.parse"),
    ("string-advance-off-by-one", ["C03", "C16"], TERMINALS, "        if state.input.startswith(self.value, state.pos):\n            state.pos += len(self.value)\n            return True\n        state.fail(str(self))", "        if state.input.startswith(self.value, state.pos):\n            state.pos += len(self.value) + 1\n            return True\n        state.fail(str(self))", "fire", "String.parse"),
    # ---- templates
    ("choice-template-no-clear", ["C01"], CHOICE, "                    gen.writeln(\"state.restore()\")\n                    gen.writeln(f\"{tmp_pairs}.clear()\")", "                    gen.writeln(\"state.restore()\")", "fire", "Choice.generate"),
    ("optional-template-no-restore", ["C01"], POSTFIX, "        with gen.block():\n            gen.writeln(\"state.restore()\")\n            gen.writeln(f\"{tmp_pairs}.clear()\")\n\n        gen.writeln(f\"{matched_var} = True\")", "        with gen.block():\n            gen.writeln(f\"{tmp_pairs}.clear()\")\n\n        gen.writeln(f\"{matched_var} = True\")", "fire", "Optional.generate"),
    ("string-template-raw-hole", ["C01"], TERMINALS, "        lit_repr = repr(self.value)\n        gen.writeln(f\"if state.input.startswith({lit_repr}, state.pos):\")", "        gen.writeln(f\"if state.input.startswith('{self.value}', state.pos):\")", "fire", "String.generate"),
    ("range-template-ignorecase", ["C01", "C12"], TERMINALS, "        re_var = gen.constant(\"RE\", f\"re.compile({pattern!r})\")", "        re_var = gen.constant(\"RE\", f\"re.compile({pattern!r}, re.I)\")", "fire", "Range"),
    ("rule-template-tag-pop-always", ["C01", "C06"], RULE, "                gen.writeln(f\"if {matched_var} and state.tag_stack:\")", "                gen.writeln(\"if state.tag_stack:\")", "fire", "Rule.generate"),
    ("trivia-template-unbalanced", ["C01", "C04"], GEN, "                    gen.writeln(\"matched = parse_WHITESPACE(state, children)\")\n                    gen.writeln(\"if matched:\")\n                    with gen.block():\n                        gen.writeln(\"state.ok()\")", "                    gen.writeln(\"matched = parse_WHITESPACE(state, children)\")\n                    gen.writeln(\"if matched:\")\n                    with gen.block():", "fire", "generate_parse_trivia"),
    ("entry-point-shared-state", ["C01", "C15"], GEN, "        gen.writeln(\"state = ParserState(text, start_pos)\")", "        gen.writeln(\"state = ParserState(text)\")", "fire", "generate_module"),
    ("peek-template-none-label", ["C01", "C13"], TERMINALS, "            # Like `parse()`, an empty stack fails without recording a label.\n            gen.writeln(f\"if {peeked} is not None:\")\n            with gen.block():\n                gen.writeln(f\"state.fail({peeked})\")\n\n        gen.writeln(\"# </Peek>\")", "            gen.writeln(f\"state.fail({peeked})\")\n\n        gen.writeln(\"# </Peek>\")", "fire", "Peek"),
    # ---- state / stack
    ("checkpoint-forgets-rule-stack", ["C05", "C09"], STATE, "        self.user_stack.snapshot()\n        self.rule_stack.snapshot()\n        self.atomic_depth.snapshot()", "        self.user_stack.snapshot()\n        self.atomic_depth.snapshot()", "fire", "checkpoint"),
    ("stack-pop-no-bookkeeping-balance", ["C09"], STACK, "                self.lengths[-1] = (item_count, remained_count - 1)\n                self.popped.append(popped)", "                self.lengths[-1] = (item_count, remained_count - 1)", "fire", "Stack.pop"),
    ("stack-drop-absolute-index", ["C09"], STACK, "        size = len(self.popped)\n        del self.popped[size - dropped : size - keep]", "        del self.popped[dropped - keep :]", "fire", "Stack.drop_snapshot"),
    ("parse-trivia-ws-unbracketed", ["C04", "C08"], STATE, "                if whitespace_rule:\n                    self.checkpoint()\n                    if whitespace_rule.parse(self, children):\n                        some = True\n                        pairs.extend(children)\n                        self.ok()\n                        children.clear()\n                        # pest: WHITESPACE* ~ (COMMENT ~ WHITESPACE*)*\n                        continue\n                    self.restore()\n                    children.clear()", "                if whitespace_rule:\n                    if whitespace_rule.parse(self, children):\n                        some = True\n                        pairs.extend(children)\n                        children.clear()\n                        # pest: WHITESPACE* ~ (COMMENT ~ WHITESPACE*)*\n                        continue\n                    children.clear()", "fire", "parse_trivia"),
    ("fail-explicit-global", ["C15"], STATE, "        if pos > self.furthest_pos:\n            self.furthest_pos = pos", "        if pos > self.furthest_pos:\n            ParserState.LAST = pos\n            self.furthest_pos = pos", "fire", "ParserState.fail"),
    # ---- front end
    ("scanner-error-index", ["C11"], SCANNER, "        value = self.grammar[self.pos : self.pos + 1]", "        value = self.grammar[self.pos]", "fire", "Scanner.error"),
    ("tag-regex-typo", ["C10"], SCANNER, 'RE_TAG = re.compile(r"#[_a-zA-Z][_a-zA-Z0-9]*")', 'RE_TAG = re.compile(r"#[_a-zA-z][_a-zA-Z0-9]*")', "fire", "RE_TAG"),
    ("keyword-no-boundary", ["C10"], SCANNER, 'RE_POP = re.compile(r"POP(?![_a-zA-Z0-9])")', 'RE_POP = re.compile(r"POP")', "fire", "RE_POP"),
    ("repeat-minmax-swapped", ["C10"], GPARSER, "            return RepeatMinMax(\n                expr, self.parse_int(number), self.parse_int(stop)\n            )", "            return RepeatMinMax(\n                expr, self.parse_int(stop), self.parse_int(number)\n            )", "fire", ""),
    ("predicates-swapped", ["C10"], GPARSER, "            left = PositivePredicate(self.parse_expression(PRECEDENCE_PREFIX), tag=tag)", "            left = NegativePredicate(self.parse_expression(PRECEDENCE_PREFIX), tag=tag)", "fire", ""),
    ("unescape-x-cursor", ["C12"], UNESCAPE, "        return chr(_parse_hex_digits(digits, token)), index + 2", "        return chr(_parse_hex_digits(digits, token)), index + 3", "fire", "_decode_escape_sequence"),
    ("unescape-value-error", ["C11"], UNESCAPE, "        if codepoint > 0x10FFFF:  # noqa: PLR2004\n            raise PestGrammarSyntaxError(\n                \"\\\\u{XXXX} escape sequence is not a Unicode code point\", token=token\n            )\n        return chr(codepoint), index", "        return chr(codepoint), index", "fire", "chr(codepoint)"),
    # ---- optimizer / pratt
    ("optimizer-touches-builtins", ["C15", "C02"], OPT, "                if isinstance(rule, BuiltInRule):\n", "                if isinstance(rule, BuiltInRule) and name == \"EOI\":\n", "silent", ""),  # since b884c9e rewritten rules are stored as copies: rewriting a built-in no longer touches the shared object
    ("skip-not-atomic-only", ["C02"], OPT, 'OptimizerStep("skip", skip, PassDirection.PREORDER, atomic_only=True),', 'OptimizerStep("skip", skip, PassDirection.PREORDER),', "fire", "skip"),
    ("unroll-min-off-by-one", ["C02"], "src/pest/grammar/optimizers/unroller.py", "            return Sequence(*chain(repeat(inner, num), [Repeat(inner)]))", "            return Sequence(*chain(repeat(inner, num - 1), [Repeat(inner)]))", "fire", "RepeatMin"),
    ("repeatmin-init-off-by-one", ["C03", "C04"], POSTFIX, "        self._unrolled = Sequence(*repeat(expression, number), Repeat(expression))", "        self._unrolled = Sequence(*repeat(expression, number + 1), Repeat(expression))", "fire", "RepeatMin"),
    ("pratt-left-assoc-flipped", ["C18"], PRATT, "prec + (0 if right_assoc else 1)", "prec + (1 if right_assoc else 0)", "fire", "parse_expr"),
    ("pratt-postfix-unconditional", ["C18"], PRATT, "                prec = self.POSTFIX_OPS[next_token.name]\n                if min_prec is not None and prec < min_prec:\n                    break\n                stream.next()", "                stream.next()", "fire", "parse_expr"),
    # ---- behaviour-preserving rewrites: every named check must stay silent
    ("S-choice-rename-locals", ["C01", "C03", "C05", "C08"], CHOICE, "            children: list[Pair] = []\n            matched = expr.parse(state, children)\n\n            if matched:\n                state.ok()\n                pairs.extend(children)\n                return True", "            scratch: list[Pair] = []\n            hit = expr.parse(state, scratch)\n\n            if hit:\n                state.ok()\n                pairs.extend(scratch)\n                return True", "silent", ""),
    ("S-optional-invert-if", ["C03", "C08"], POSTFIX, "        if matched:\n            state.ok()\n            pairs.extend(children)\n            return True\n        state.restore()\n        return True", "        if not matched:\n            state.restore()\n        else:\n            state.ok()\n            pairs.extend(children)\n        return True", "silent", ""),
    ("S-sequence-hoist-len", ["C03", "C04"], SEQUENCE, "        children: list[Pair] = []\n\n        for i, expr in enumerate(self.expressions):", "        children: list[Pair] = []\n        last = len(self.expressions) - 1\n\n        for i, expr in enumerate(self.expressions):", "silent", ""),
    ("S-string-slice-form", ["C03", "C16"], TERMINALS, "        if state.input.startswith(self.value, state.pos):\n            state.pos += len(self.value)\n            return True\n        state.fail(str(self))", "        if state.input[state.pos :].startswith(self.value):\n            state.pos += len(self.value)\n            return True\n        state.fail(str(self))", "silent", ""),
    ("S-pospred-helper-var", ["C03", "C05", "C08"], PREFIX, "        matched = self.expression.parse(state, [])\n        state.restore()\n        return matched", "        scratch: list[Pair] = []\n        matched = self.expression.parse(state, scratch)\n        state.restore()\n        return matched", "silent", ""),
    ("S-optimizer-nested-guard", ["C15", "C02"], OPT, "                if isinstance(rule, BuiltInRule):\n                    # Built-in rule objects are shared by every parser in the\n                    # process; rewriting them would change other parsers.\n                    continue\n", "                if isinstance(rule, BuiltInRule):\n                    continue  # shared by every parser in the process\n", "silent", ""),
    ("S-stack-drop-reordered", ["C09"], STACK, "        size = len(self.popped)\n        del self.popped[size - dropped : size - keep]", "        end = len(self.popped) - keep\n        del self.popped[end - (dropped - keep) : end]", "silent", ""),
    ("S-scanner-error-local", ["C11"], SCANNER, "        value = self.grammar[self.pos : self.pos + 1]", "        at = self.pos\n        value = self.grammar[at : at + 1]", "silent", ""),
    ("S-pratt-bound-ifexp", ["C18"], PRATT, "prec + (0 if right_assoc else 1)", "(prec if right_assoc else prec + 1)", "silent", ""),
    # ---- rules added after the seeded round
    ("order-empty-literal", ["C02"], CHOICE, "        if isinstance(a, UnicodePropertyRule) or not b.value:", "        if isinstance(a, UnicodePropertyRule):", "fire", ""),
    ("order-range-end-exclusive", ["C02"], CHOICE, "        return a.start <= b.value[:1] <= a.end", "        return a.start <= b.value[:1] < a.end", "fire", "O12"),
    ("skip-no-visited-set", ["C11"], SKIPPERS, "        if rule and expr.value not in seen:", "        if rule:", "fire", "GRAPH-RECURSION"),
    ("parse-int-unbounded", ["C11"], GPARSER, "        if not -(2**31) <= value < 2**32:\n            raise PestGrammarSyntaxError(\"number out of range\", token=token)\n        return value", "        return value", "fire", "NUM-BOUND"),
    ("from-grammar-no-recursion-guard", ["C11"], PARSER, "        except RecursionError as err:", "        except MemoryError as err:", "fire", "RecursionError"),
    ("merge-end-not-max", ["C12"], CHOICE, "            merged[-1][1] = max(merged[-1][1], e)", "            merged[-1][1] = e", "fire", "_optimize_char_class"),
    ("merge-joins-across-gap", ["C12"], CHOICE, "        if not merged or s > merged[-1][1] + 1:", "        if not merged or s > merged[-1][1] + 2:", "fire", "_optimize_char_class"),
    ("class-single-not-escaped", ["C12"], CHOICE, "            parts_out.append(re.escape(chr(s)))", "            parts_out.append(chr(s))", "fire", "_optimize_char_class"),
    ("error-context-no-keepends", ["C13"], EXC, "    lines = text.splitlines(keepends=True)\n    cumulative_length = 0", "    lines = text.splitlines()\n    cumulative_length = 0", "fire", "LINE-OFFSET"),
    ("skipuntil-or-default", ["C02", "C16"], TERMINALS, "        if best_index is not None:\n            state.pos = best_index\n        else:\n            state.pos = len(s)\n", "        state.pos = best_index or len(s)\n", "fire", "SkipUntil.parse"),
    ("checkpoint-conditional-snapshot", ["C05", "C09"], STATE, "        self.user_stack.snapshot()\n        self.rule_stack.snapshot()", "        if not self.user_stack.empty():\n            self.user_stack.snapshot()\n        self.rule_stack.snapshot()", "fire", "ParserState.checkpoint"),
    # ---- C17 CALC-SEM / JSON-TREE (round six)
    ("calc-pratt-sub-operands-swapped", ["C17"], "examples/calculator/pratt.py", "return InfixExpr(sub, lhs, rhs)", "return InfixExpr(sub, rhs, lhs)", "fire", "CALC-SEM"),
    ("calc-climber-div-is-mul", ["C17"], "examples/calculator/prec_climber.py", "return InfixExpr(floordiv, left, right)", "return InfixExpr(mul, left, right)", "fire", "CALC-SEM"),
    ("calc-grammar-pow-left", ["C17"], "examples/calculator/grammar_encoded_prec.pest", "pow_expr    =  { prefix ~ (pow_op ~ pow_expr)? }", "pow_expr    =  { prefix ~ (pow_op ~ prefix)* }", "fire", "CALC-SEM"),
    ("calc-ast-evaluate-swapped", ["C17"], "examples/calculator/_ast.py", "return self.op(self.left.evaluate(variables), self.right.evaluate(variables))", "return self.op(self.right.evaluate(variables), self.left.evaluate(variables))", "fire", "CALC-SEM"),
    ("calc-pest-ident-one-letter", ["C17"], "examples/calculator/calculator.pest", "ident  =  @{ ASCII_ALPHA+ }", "ident  =  @{ ASCII_ALPHA }", "fire", "CALC-SEM"),
    ("S-calc-grammar-walker-equivalent-test", ["C17"], "examples/calculator/grammar_encoded_prec.py", "func = mul if op.name == \"mul\" else floordiv", "func = floordiv if op.name == \"div\" else mul", "silent", ""),
    ("json-example-one-more-member-only", ["C17"], "examples/json/json.pest", "\"{\" ~ pair ~ (\",\" ~ pair)* ~ \"}\"", "\"{\" ~ pair ~ (\",\" ~ pair)? ~ \"}\"", "fire", "JSON-TREE"),
    ("json-example-escape-solidus-dropped", ["C17"], "examples/json/json.pest", "(\"\\\"\" | \"\\\\\" | \"/\" | \"b\"", "(\"\\\"\" | \"\\\\\" | \"b\"", "fire", "JSON-TREE"),
    ("S-json-example-boolean-reordered", ["C17"], "examples/json/json.pest", "boolean = { \"true\" | \"false\" }", "boolean = { \"false\" | \"true\" }", "silent", ""),
    ("S-json-example-empty-object-second", ["C17"], "examples/json/json.pest", "    \"{\" ~ \"}\" |\n    \"{\" ~ pair ~ (\",\" ~ pair)* ~ \"}\"", "    \"{\" ~ pair ~ (\",\" ~ pair)* ~ \"}\" |\n    \"{\" ~ \"}\"", "silent", ""),
    ("pratt-prefix-max", ["C18"], PRATT, "            prec = self.PREFIX_OPS[token.name]", "            prec = max(self.PREFIX_OPS[token.name], min_prec or 0)", "fire", "prefix"),
    ("pratt-default-floor-zero", ["C18"], PRATT, "min_prec: int | None = None", "min_prec: int | None = 0", "fire", "PRATT"),
    ("S-pratt-floor-sentinel", ["C18"], PRATT, "                if min_prec is not None and prec < min_prec:\n                    break\n                stream.next()\n                rhs", "                if not (min_prec is None or prec >= min_prec):\n                    break\n                stream.next()\n                rhs", "silent", ""),
    ("S-merge-branches-inverted", ["C12"], CHOICE, "        if not merged or s > merged[-1][1] + 1:\n            merged.append([s, e])\n        else:\n            merged[-1][1] = max(merged[-1][1], e)", "        if merged and s <= merged[-1][1] + 1:\n            merged[-1][1] = max(merged[-1][1], e)\n        else:\n            merged.append([s, e])", "silent", ""),
    ("S-order-overlap-ord-form", ["C02"], CHOICE, "        return a.start <= b.value[:1] <= a.end", "        first = b.value[:1]\n        return not (first < a.start or first > a.end)", "silent", ""),
    ("S-error-context-named-flag", ["C13"], EXC, "    lines = text.splitlines(keepends=True)\n    cumulative_length = 0", "    lines = text.splitlines(True)\n    cumulative_length = 0", "silent-or-undecided", ""),  # the edit is inside the slice a SAFE triage entry was written for: exit 2 (re-triage) is accepted
    ("S-skipuntil-min-builtin", ["C02", "C16"], TERMINALS, "            if pos != -1 and (best_index is None or pos < best_index):\n                best_index = pos", "            if pos != -1:\n                best_index = pos if best_index is None else min(best_index, pos)", "silent", ""),
    ("scanner-no-trivia-before-assign", ["C10"], SCANNER, "        self.skip_trivia()\n\n        if self.peek() == \"=\":\n            self.emit(TokenKind.ASSIGN_OP, self.next())\n        else:\n            return self.error(\"expected the assignment operator\")", "        if self.peek() == \"=\":\n            self.emit(TokenKind.ASSIGN_OP, self.next())\n        else:\n            return self.error(\"expected the assignment operator\")", "fire", "TRIVIA"),
    ("scanner-no-trivia-in-range", ["C10"], SCANNER, "            self.emit(TokenKind.CHAR, value)\n            self.skip_trivia()\n\n            if value := self.scan(RE_RANGE_OP):", "            self.emit(TokenKind.CHAR, value)\n\n            if value := self.scan(RE_RANGE_OP):", "fire", "TRIVIA"),
    ("S-scanner-redundant-skip-removed", ["C10"], SCANNER, "        self.skip_trivia()\n        self.accept_expression()\n        self.skip_trivia()\n\n        if self.peek() == \")\":\n            self.emit(TokenKind.RPAREN, self.next())\n        else:\n            self.error(\"expected a closing paren\")\n\n        self.accept_postfix_op()", "        self.accept_expression()\n\n        if self.peek() == \")\":\n            self.emit(TokenKind.RPAREN, self.next())\n        else:\n            self.error(\"expected a closing paren\")\n\n        self.accept_postfix_op()", "silent", ""),
    ("stack-drop-wrong-end", ["C05", "C09"], STACK, "        size = len(self.popped)\n        del self.popped[size - dropped : size - keep]", "        discard = dropped - keep\n        if discard:\n            del self.popped[-discard:]", "fire", "REP-INVARIANT"),
    ("stack-clear-not-reversed", ["C09"], STACK, "            self.popped.extend(reversed(self.items[:remained_count]))", "            self.popped.extend(self.items[:remained_count])", "fire", "REP-INVARIANT"),
    ("S-stack-restore-slice-form", ["C09", "C05"], STACK, "            recovered = self.popped[new_size:]\n            del self.popped[new_size:]\n            self.items.extend(reversed(recovered))", "            recovered = self.popped[-rewind_count:]\n            del self.popped[-rewind_count:]\n            self.items.extend(recovered[::-1])", "silent", ""),
    ("peek-fail-outside-suppress", ["C07"], TERMINALS, "                state.pos += len(value)\n                return True\n\n            state.fail(value)\n        return False\n\n    def generate(self, gen: Builder, matched_var: str, pairs_var: str) -> None:\n        \"\"\"Emit Python code for a PEEK", "                state.pos += len(value)\n                return True\n\n        state.fail(value)\n        return False\n\n    def generate(self, gen: Builder, matched_var: str, pairs_var: str) -> None:\n        \"\"\"Emit Python code for a PEEK", "fire", "R5"),
    ("snapshotting-int-class-level-list", ["C15"], "src/pest/checkpoint_int.py", "    def __init__(self, value: int = 0) -> None:\n        self._value: int = value\n        self._checkpoints: list[int] = []", "    _checkpoints: list[int] = []\n\n    def __init__(self, value: int = 0) -> None:\n        self._value: int = value", "fire", "CLASS-MUTABLE"),
    ("rule-mask-mixes-silent", ["C08"], RULE, "        hidden = state.hide_pairs and not self.modifier & (COMPOUND | NONATOMIC)", "        hidden = state.hide_pairs and not self.modifier & (SILENT | COMPOUND | NONATOMIC)", "fire", "MASK-AXES"),
    ("pair-tokens-children-reversed", ["C06"], PAIRS, "        for child in self.children:\n            yield from child.tokens()\n        yield End(self.rule, self.end)", "        for child in reversed(self.children):\n            yield from child.tokens()\n        yield End(self.rule, self.end)", "fire", "Pair.tokens"),
    ("pairs-flatten-postorder", ["C06"], PAIRS, "            yield pair\n            for child in pair.children:\n                yield from _flatten(child)", "            for child in pair.children:\n                yield from _flatten(child)\n            yield pair", "fire", "Pairs.flatten"),
    ("pair-text-off-by-one", ["C06"], PAIRS, "        \"\"\"The substring pointed to by this token pair.\"\"\"\n        return self.input[self.start : self.end]", "        \"\"\"The substring pointed to by this token pair.\"\"\"\n        return self.input[self.start : self.end + 1]", "fire", "Pair.text"),
    ("stream-peek-advances", ["C18", "C06"], PAIRS, "        if self.pos < len(self.pairs):\n            return self.pairs[self.pos]\n        return None", "        if self.pos < len(self.pairs):\n            self.pos += 1\n            return self.pairs[self.pos - 1]\n        return None", "fire", "Stream"),
    ("S-pair-tokens-list-form", ["C06"], PAIRS, "        yield Start(self.rule, self.start)\n        for child in self.children:\n            yield from child.tokens()\n        yield End(self.rule, self.end)", "        out: list[Token] = [Start(self.rule, self.start)]\n        for child in self.children:\n            out.extend(child.tokens())\n        out.append(End(self.rule, self.end))\n        return iter(out)", "silent", ""),
    ("S-pairs-flatten-explicit-stack", ["C06"], PAIRS, "        for pair in self._pairs:\n            yield from _flatten(pair)", "        stack = list(reversed(self._pairs))\n        while stack:\n            node = stack.pop()\n            yield node\n            stack.extend(reversed(node.children))", "silent", ""),
    ("optimizer-rewrites-in-place", ["C15", "C02"], OPT, "                if expr is not rule.expression:\n                    # The caller may share its Rule objects with other parsers:\n                    # store a rewritten copy instead of rewriting in place.\n                    rewritten = copy.copy(rule)\n                    rewritten.expression = expr\n                    rules[name] = rewritten\n", "                rules[name].expression = expr\n", "fire", "Optimizer.optimize"),
    ("inline-trivia-rule", ["C02"], "src/pest/grammar/optimizers/inliners.py", "            and rule.modifier == SILENT\n            and expr.value not in (\"WHITESPACE\", \"COMMENT\")\n", "            and rule.modifier & SILENT\n", "fire", "inline_silent_rules"),
    ("restore-keeps-taken-tag", ["C08", "C05", "C09"], STATE, "        self.tag_stack[:] = self._tag_history.pop()\n", "        self._tag_history.pop()\n", "fire", ""),
    ("S-tag-history-as-lists", ["C08", "C05", "C09", "C06"], STATE, "        self._tag_history.append(tuple(self.tag_stack))\n", "        self._tag_history.append(list(self.tag_stack))\n", "silent", ""),
    ("squash-version1", ["C02"], CHOICE, "            self._compiled = re.compile(self.build_optimized_pattern())", "            self._compiled = re.compile(self.build_optimized_pattern(), re.VERSION1)", "silent", ""),  # since 352c5c8 no emitted pattern folds case through a flag: VERSION1 changes nothing the builder can emit (O12 on the engine decides; O13 is a second opinion)
    ("cistring-unicode-folding", ["C12", "C02"], TERMINALS, "        self._re = re.compile(re.escape(value), re.I | re.A)", "        self._re = re.compile(re.escape(value), re.I)", "fire", ""),
    ("squash-class-nonascii-case", ["C02", "C12"], CHOICE, "                if val.isascii():\n                    char_class_parts.append(val.upper())\n                    char_class_parts.append(val.lower())\n                else:\n                    char_class_parts.append(val)", "                char_class_parts.append(val.upper())\n                char_class_parts.append(val.lower())", "fire", ""),
    ("trivia-comment-after-one-whitespace", ["C04"], STATE, "                        children.clear()\n                        # pest: WHITESPACE* ~ (COMMENT ~ WHITESPACE*)*\n                        continue\n", "                        children.clear()\n                        matched = True\n", "fire", "parse_trivia"),
    ("skip-rule-unsuppressed", ["C13", "C04"], STATE, "            with self.suppress_failures():\n                return skip.parse(self, pairs)\n", "            return skip.parse(self, pairs)\n", "fire", "SKIP"),
    ("identifier-no-push-guard", ["C10"], SCANNER, "RE_IDENTIFIER = re.compile(r\"(?!PUSH)[_a-zA-Z][_a-zA-Z0-9]*\")", "RE_IDENTIFIER = re.compile(r\"[_a-zA-Z][_a-zA-Z0-9]*\")", "fire", "RE_IDENTIFIER"),
    ("tag-lookahead-whitespace-only", ["C10"], SCANNER, "RE_TAG = re.compile(r\"#[_a-zA-Z][_a-zA-Z0-9]*\")", "RE_TAG = re.compile(r\"#[_a-zA-Z][_a-zA-Z0-9]*(?=\\s*=)\")", "fire", "RE_TAG"),
    ("S-inline-condition-reordered", ["C02"], "src/pest/grammar/optimizers/inliners.py", "            rule\n            and rule.modifier == SILENT\n            and expr.value not in (\"WHITESPACE\", \"COMMENT\")\n", "            rule is not None\n            and expr.value not in {\"COMMENT\", \"WHITESPACE\"}\n            and rule.modifier == SILENT\n", "silent", ""),
    ("linecol-end-of-text-new-line", ["C14"], PAIRS, "            if lines and lines[-1].splitlines()[0] == lines[-1]:\n                return len(lines), len(lines[-1]) + 1\n            return len(lines) + 1, 1", "            return len(lines) + 1, 1", "fire", "line_col"),
    ("line-of-indexes-text", ["C14"], PAIRS, "        return lines[line_number - 1] if line_number <= len(lines) else \"\"", "        return self.text[line_number - 1]", "fire", "line_of"),
    ("linecol-column-zero-based", ["C14"], PAIRS, "            self.pos - (cumulative_length - len(lines[target_line_index])) + 1\n        )\n        return line_number, column_number", "            self.pos - (cumulative_length - len(lines[target_line_index]))\n        )\n        return line_number, column_number", "fire", "line_col"),
    ("span-lines-off-by-one", ["C14"], PAIRS, "        return lines[start_line_number - 1 : end_line_number]", "        return lines[start_line_number - 1 : end_line_number - 1]", "fire", "Span.lines"),
    ("S-linecol-count-rfind-form", ["C14"], PAIRS, "        lines = self.text.splitlines(keepends=True)\n        cumulative_length = 0\n        target_line_index = -1\n\n        for i, line in enumerate(lines):\n            cumulative_length += len(line)\n            if self.pos < cumulative_length:\n                target_line_index = i\n                break\n\n        if target_line_index == -1:\n            # At the end of the text: on a new line if the text is empty or\n            # ends with a line break, else just after the last line.\n            if lines and lines[-1].splitlines()[0] == lines[-1]:\n                return len(lines), len(lines[-1]) + 1\n            return len(lines) + 1, 1\n\n        # 1-based\n        line_number = target_line_index + 1\n        column_number = (\n            self.pos - (cumulative_length - len(lines[target_line_index])) + 1\n        )\n        return line_number, column_number", "        before = self.text[: self.pos]\n        return before.count(\"\\n\") + 1, self.pos - before.rfind(\"\\n\")", "silent", ""),
    # ---- the defects repaired by e348d10 / cb8c3d4, put back
    ("suppress-failures-not-reentrant", ["C13"], STATE, "        yield self\n        self._suppress_failures = suppressed", "        yield self\n        self._suppress_failures = False", "fire", "suppress_failures"),
    ("error-context-eof-on-previous-line", ["C13"], EXC, "    if not lines or lines[-1].splitlines() != [lines[-1]]:\n        # Empty text, or the end of a text that ends with a line break.\n        return (\"\", len(lines) + 1, index - cumulative_length + 1)\n", "    if not lines:\n        return (\"\", 1, 1)\n", "fire", "error_context"),
    ("grammar-error-context-eof-on-previous-line", ["C11"], "src/pest/grammar/exceptions.py", "        if not lines or lines[-1].splitlines() != [lines[-1]]:\n            lines.append(\"\")", "        if not lines:\n            lines.append(\"\")", "fire", "_error_context"),
    # ---- C02 O16 (the skip pass on model loop shapes)
    ("skip-pass-ignores-unresolved-alternative", ["C02"], SKIPPERS, "            if not inlined_subs:\n                return None\n", "            if not inlined_subs:\n                continue\n", "fire", "skip"),
    ("squash-ci-literal-scoped-ascii-flag", ["C02", "C12"], CHOICE, '                insensitive_parts.append(\n                    "".join(\n                        f"[{ch.lower()}{ch.upper()}]"\n                        if ch.isascii() and ch.isalpha()\n                        else re.escape(ch)\n                        for ch in val\n                    )\n                )\n', '                insensitive_parts.append(f"(?ai:{re.escape(val)})")\n', "fire", "squash"),
    ("skip-pass-takes-rewritten-loop", ["C02"], SKIPPERS, "    if isinstance(expr, String):\n        subs.append(expr.value)\n        return SkipUntil(subs)\n", "    if isinstance(expr, SkipUntil):\n        subs.extend(expr.subs)\n        return SkipUntil(subs)\n\n    if isinstance(expr, String):\n        subs.append(expr.value)\n        return SkipUntil(subs)\n", "fire", "skip"),
    ("skip-pass-any-second-element", ["C02"], SKIPPERS, '                case (NegativePredicate(expression=inner), Any() | Identifier("ANY")):', "                case (NegativePredicate(expression=inner), _):", "fire", "skip"),
    # ---- pair visibility under @ / $ / ! (the semantics fix 70d5e83 introduced)
    ("rule-hidden-still-produces-pair", ["C04", "C06"], RULE, "        if self.modifier & SILENT or hidden:\n            # Children without an enclosing Pair.", "        if self.modifier & SILENT:\n            # Children without an enclosing Pair.", "fire", "Rule.parse"),
    ("rule-nonatomic-does-not-unhide", ["C04", "C06"], RULE, "                state.atomic_depth.zero()\n                state.hide_pairs = False\n", "                state.atomic_depth.zero()\n", "fire", "Rule.parse"),
    ("rule-gen-compound-hides", ["C01", "C04"], RULE, "                    hide = not self.modifier & COMPOUND\n", "                    hide = True\n", "fire", "Rule.generate"),
    ("rule-gen-hidden-test-dropped", ["C01", "C06"], RULE, "                if not always_visible:\n                    gen.writeln(f\"if {hidden_var}:\")", "                if False:\n                    gen.writeln(f\"if {hidden_var}:\")", "fire", "Rule.generate"),
    ("atomic-checkpoint-keeps-visibility", ["C04"], STATE, "        yield self\n        self.hide_pairs = hide_pairs\n        self.atomic_depth.restore()", "        yield self\n        self.atomic_depth.restore()", "fire", "atomic_checkpoint"),
    ("S-rule-visibility-spelled-out", ["C01", "C04", "C06", "C08"], RULE, "        hidden = state.hide_pairs and not self.modifier & (COMPOUND | NONATOMIC)\n", "        hidden = False\n        if state.hide_pairs:\n            hidden = not (self.modifier & COMPOUND or self.modifier & NONATOMIC)\n", "silent", ""),
    # ---- the defect repaired by 1103b37, put back
    ("repeat-gen-trivia-outside-checkpoint", ["C01"], POSTFIX, '            gen.writeln("state.checkpoint()")\n            gen.writeln(f"if not {first}:")\n            with gen.block():\n                # Trivia before an iteration is given back, together with\n                # anything it did to the stack, if the iteration fails.\n                gen.writeln(f"parse_trivia(state, {tmp_pairs})")\n            # Parse one item\n            self.expression.generate(gen, matched_var, tmp_pairs)\n\n            gen.writeln(f"if {matched_var}:")\n            with gen.block():\n                gen.writeln("state.ok()")\n                # Commit the item immediately\n                gen.writeln(f"{pairs_var}.extend({tmp_pairs})")\n                gen.writeln(f"{tmp_pairs}.clear()")\n                gen.writeln(f"{first} = False")\n            gen.writeln("else:")\n            with gen.block():\n                gen.writeln("state.restore()")\n', '            gen.writeln("state.checkpoint()")\n            # Parse one item\n            self.expression.generate(gen, matched_var, tmp_pairs)\n\n            gen.writeln(f"if {matched_var}:")\n            with gen.block():\n                gen.writeln("state.ok()")\n                # Commit the item immediately\n                gen.writeln(f"{pairs_var}.extend({tmp_pairs})")\n                gen.writeln(f"{tmp_pairs}.clear()")\n                gen.writeln(f"{first} = state.pos")\n                gen.writeln(f"parse_trivia(state, {tmp_pairs})")\n            gen.writeln("else:")\n            with gen.block():\n                gen.writeln("state.restore()")\n                gen.writeln(f"if {first} is not True:")\n                with gen.block():\n                    gen.writeln(f"state.pos = {first}")\n', "fire", "Repeat"),
    # ---- C01 DIFF (both siblings evaluated on scripted children)
    ("push-gen-slice-from-zero", ["C01"], TERMINALS, 'gen.writeln(f"state.push(state.input[{start_var} : state.pos])")', 'gen.writeln("state.push(state.input[: state.pos])")', "fire", "Push"),
    ("peek-gen-advances-by-one", ["C01"], TERMINALS, '        with gen.block():\n            gen.writeln(f"state.pos += len({peeked})")\n            gen.writeln(f"{matched_var} = True")\n        gen.writeln("else:")', '        with gen.block():\n            gen.writeln("state.pos += 1")\n            gen.writeln(f"{matched_var} = True")\n        gen.writeln("else:")', "fire", "Peek"),
    ("S-peek-parse-explicit-none-test", ["C01", "C05"], TERMINALS, "        with suppress(IndexError):\n            value = state.user_stack.peek()\n\n            if state.input.startswith(value, state.pos):\n                state.pos += len(value)\n                return True\n\n            state.fail(value)\n        return False\n\n    def generate(self, gen: Builder, matched_var: str, pairs_var: str) -> None:\n        \"\"\"Emit Python code for a PEEK expression.\"\"\"\n        gen.writeln(\"# <Peek>\")", "        value = state.peek()\n        if value is None:\n            return False\n        if state.input.startswith(value, state.pos):\n            state.pos += len(value)\n            return True\n        state.fail(value)\n        return False\n\n    def generate(self, gen: Builder, matched_var: str, pairs_var: str) -> None:\n        \"\"\"Emit Python code for a PEEK expression.\"\"\"\n        gen.writeln(\"# <Peek>\")", "silent", ""),
]


def _copy_tree(dst: Path) -> None:
    for sub in ("src", "examples", "tests/grammars"):
        s = REPO / sub
        if s.exists():
            shutil.copytree(s, dst / sub, ignore=shutil.ignore_patterns("__pycache__", "*.pyc"))
    for f in ("pyproject.toml",):
        if (REPO / f).exists():
            shutil.copy(REPO / f, dst / f)


def run_variant(entry: tuple, prop: str) -> dict:
    vid, props, rel, old, new, expect, mention = entry
    src = (REPO / rel).read_text()
    if src.count(old) != 1:
        return {"id": vid, "status": "skipped", "why": f"anchor text occurs {src.count(old)} times"}
    tmp = Path(tempfile.mkdtemp(prefix="sa-selftest-"))
    try:
        _copy_tree(tmp)
        (tmp / rel).write_text(src.replace(old, new))
        env = dict(os.environ)
        env["SA_REPO"] = str(tmp)
        env["SA_NO_EVIDENCE"] = "1"
        p = subprocess.run([sys.executable, "-m", "sa", prop, "--tier", "quick"], cwd=str(VERIF), env=env, capture_output=True, text=True, timeout=600)
        out = p.stdout + p.stderr
        fired = p.returncode == 1 and "VIOLATION property=" in out
        if expect == "fire":
            ok = fired and (not mention or mention in out)
        elif expect == "silent":
            ok = p.returncode == 0
        elif expect == "silent-or-undecided":
            ok = p.returncode in (0, 2) and "VIOLATION property=" not in out
        else:
            ok = p.returncode in (0, 1)
        return {"id": vid, "status": "ok" if ok else "WRONG", "expect": expect, "rc": p.returncode, "tail": out.strip().splitlines()[-3:] if not ok else []}
    finally:
        shutil.rmtree(tmp, ignore_errors=True)


def run_reformat(prop: str) -> dict:
    """Behaviour-preserving whole-repository rewrite: reformat every source file with
    another line length (the repository's own ruff).  Every check must stay silent."""
    ruff = Path(sys.executable).with_name("ruff")
    if not ruff.exists():
        return {"id": "S-reformat-all", "status": "skipped", "why": "ruff not in the repository's environment"}
    tmp = Path(tempfile.mkdtemp(prefix="sa-selftest-"))
    try:
        _copy_tree(tmp)
        subprocess.run([str(ruff), "format", "--line-length", "120", "src", "examples"], cwd=str(tmp), capture_output=True, text=True, timeout=120)
        env = dict(os.environ)
        env["SA_REPO"] = str(tmp)
        env["SA_NO_EVIDENCE"] = "1"
        p = subprocess.run([sys.executable, "-m", "sa", prop, "--tier", "quick"], cwd=str(VERIF), env=env, capture_output=True, text=True, timeout=600)
        ok = p.returncode == 0
        return {"id": "S-reformat-all", "status": "ok" if ok else "WRONG", "expect": "silent", "rc": p.returncode, "tail": (p.stdout + p.stderr).strip().splitlines()[-3:] if not ok else []}
    finally:
        shutil.rmtree(tmp, ignore_errors=True)


def seeded_variants(prop: str) -> list[Path]:
    out = []
    base = VERIF / "seeded"
    if base.exists():
        for d in sorted(base.iterdir()):
            meta = d / "meta.json"
            if meta.exists():
                m = json.loads(meta.read_text())
                if prop in m.get("caught_by", []) and not m.get("superseded"):
                    out.append(d)
    return out


def run_seed(seed_dir: Path, prop: str) -> dict:
    tmp = Path(tempfile.mkdtemp(prefix="sa-seed-"))
    try:
        _copy_tree(tmp)
        p = subprocess.run(["git", "apply", "--unsafe-paths", f"--directory={tmp}", str(seed_dir / "patch.diff")], cwd="/", capture_output=True, text=True)
        if p.returncode != 0:
            # no fuzzy fallback: a patch that only applies with fuzz is not the change that was confirmed
            return {"id": seed_dir.name, "status": "skipped", "why": "patch no longer applies"}
        env = dict(os.environ)
        env["SA_REPO"] = str(tmp)
        env["SA_NO_EVIDENCE"] = "1"
        r = subprocess.run([sys.executable, "-m", "sa", prop, "--tier", "quick"], cwd=str(VERIF), env=env, capture_output=True, text=True, timeout=600)
        ok = r.returncode == 1 and "VIOLATION property=" in r.stdout
        return {"id": "seed:" + seed_dir.name, "status": "ok" if ok else "WRONG", "expect": "fire", "rc": r.returncode, "tail": (r.stdout + r.stderr).strip().splitlines()[-3:] if not ok else []}
    finally:
        shutil.rmtree(tmp, ignore_errors=True)


def refactor_variants() -> list[Path]:
    """Behaviour-preserving restructurings written by independent agents (DESIGN 12.4): every check runs all of them."""
    base = VERIF / "refactors"
    return [d for d in sorted(base.iterdir()) if (d / "meta.json").exists() and (d / "patch.diff").exists()] if base.exists() else []


def run_refactor(ref_dir: Path, prop: str) -> dict:
    meta = json.loads((ref_dir / "meta.json").read_text())
    # "undecided" names the checks that are allowed to stop with ANALYSIS-ERROR on this restructuring (each with
    # the reason recorded in the meta file); a VIOLATION is wrong for every check
    expect = "silent-or-undecided" if prop in meta.get("undecided", {}) else "silent"
    tmp = Path(tempfile.mkdtemp(prefix="sa-refactor-"))
    try:
        _copy_tree(tmp)
        p = subprocess.run(["git", "apply", "--unsafe-paths", f"--directory={tmp}", str(ref_dir / "patch.diff")], cwd="/", capture_output=True, text=True)
        if p.returncode != 0:
            return {"id": "refactor:" + ref_dir.name, "status": "skipped", "why": "patch no longer applies"}
        env = dict(os.environ)
        env["SA_REPO"] = str(tmp)
        env["SA_NO_EVIDENCE"] = "1"
        r = subprocess.run([sys.executable, "-m", "sa", prop, "--tier", "quick"], cwd=str(VERIF), env=env, capture_output=True, text=True, timeout=900)
        out = r.stdout + r.stderr
        ok = r.returncode == 0 or (expect == "silent-or-undecided" and r.returncode == 2 and "VIOLATION property=" not in out)
        return {"id": "refactor:" + ref_dir.name, "status": "ok" if ok else "WRONG", "expect": expect, "rc": r.returncode, "tail": out.strip().splitlines()[-3:] if not ok else []}
    finally:
        shutil.rmtree(tmp, ignore_errors=True)


def run(check: Check) -> None:
    prop = check.prop
    entries = [e for e in CATALOGUE if prop in e[1]]
    seeds = seeded_variants(prop)
    refactors = refactor_variants()
    results: list[dict] = []
    with ThreadPoolExecutor(max_workers=min(16, max(1, len(entries) + len(seeds) + len(refactors) + 1))) as ex:
        futs = [ex.submit(run_variant, e, prop) for e in entries] + [ex.submit(run_seed, s, prop) for s in seeds] + [ex.submit(run_refactor, d, prop) for d in refactors] + [ex.submit(run_reformat, prop)]
        for f in futs:
            results.append(f.result())
    ran = [r for r in results if r["status"] != "skipped"]
    skipped = [r for r in results if r["status"] == "skipped"]
    wrong = [r for r in results if r["status"] == "WRONG"]
    check.count("selftest_variants", len(ran))
    check.count("selftest_fire", sum(1 for r in ran if r.get("expect") == "fire"))
    check.count("selftest_silent", sum(1 for r in ran if r.get("expect") in ("silent", "silent-or-undecided")))
    check.count("selftest_refactors", sum(1 for r in ran if r["id"].startswith("refactor:")))
    check.count("selftest_skipped", len(skipped))
    check.notes.append("self-test kill matrix: " + ", ".join(f"{r['id']}={r['status']}" for r in results))
    for r in ran[:6]:
        check.samples.append({"selftest_variant": r["id"], "expected": r.get("expect"), "outcome": r["status"]})
    check.obligations += len(ran)
    check.discharged += len(ran) - len(wrong)
    for r in ran:
        check.nontrivial.add("selftest|" + r["id"])
    if wrong:
        raise AnalysisError("self-test: the checker gave the wrong verdict on variants " + ", ".join(f"{r['id']} (expected {r.get('expect')}, exit {r.get('rc')})" for r in wrong) + "; first: " + json.dumps(wrong[0])[:700])
    if entries and len(skipped) * 3 > len(results):
        raise AnalysisError(f"self-test catalogue is stale for {prop}: {len(skipped)} of {len(results)} variants no longer apply")
