"""C13 RENDER — a parse failure always renders, and shows the position it carries.

PestParsingError (construction, str(), detailed_message(), expected(), expected_labels())
and the helpers it uses (join_with_limit, error_context) are evaluated from their syntax
trees on model parser states: texts that are empty, one line, several lines, with and
without a final line break, non-ASCII; a furthest-failure record that is still at the
sentinel, or holds expected labels, unexpected labels or both, one or many (long enough
for the length limit to cut), at the start, inside, at the end of the text.  No point may
raise; the message must contain `line:column` of the recorded position (the property's
definition, as in sa/linesem.py) whenever a position was recorded.  The record itself
is produced by the model's own `ParserState.fail`, so the two ends meet.
"""

from __future__ import annotations

from .core import AnalysisError
from .linesem import ref_line_col
from .objmodel import ClassModel, maybe_install_re, model_attr, new_parser_state
from .ordabs import ModelRaise, Obj
from .repo import Repo

RELS = ["src/pest/exceptions.py", "src/pest/state.py", "src/pest/stack.py", "src/pest/checkpoint_int.py"]
TEXTS = ["", "a", "ab\ncd", "ab\n", "éK\nß", "\n\n"]


def program(repo: Repo, where: str) -> ClassModel:
    cm = ClassModel(repo, [r for r in RELS if r in repo.py_files], where, {"Generic": None}, max_steps=200000)
    for need in ("PestParsingError", "ParserState"):
        if need not in cm.classes:
            raise AnalysisError(f"{where}: anchor vanished: class {need}")
    maybe_install_re(cm)

    def exc_init(self: Obj, *args: object) -> None:
        self.__dict__["args"] = tuple(args)

    cm._cache[("Exception", "__init__")] = exc_init  # noqa: SLF001
    return cm


def check_render(repo: Repo, where: str) -> tuple[int, list[tuple[str, str]]]:
    cm = program(repo, where)
    bad: list[tuple[str, str]] = []
    n = 0
    long_labels = [f'"label number {i} of a long list"' for i in range(6)]
    histories = {
        "no failure recorded": [],
        "one expected label": [("x", False)],
        "one unexpected label": [("x", True)],
        "expected and unexpected": [("x", False), ("y", True)],
        "many long labels": [(lab, i % 2 == 1) for i, lab in enumerate(long_labels)],
    }
    for text in TEXTS:
        for p in sorted({0, len(text) // 2, len(text)}):
            for hname, hist in histories.items():
                n += 1
                desc = f"text {text!r}, failure at {p}, {hname}"
                state = new_parser_state(cm, text, 0, Obj("Parser", rules={}), where)
                try:
                    cm.call(state.rule_stack, "push", cm.new("RuleFrame", "r", 0))
                    for i, (label, neg) in enumerate(hist):
                        if i == 1:
                            cm.call(state.rule_stack, "push", cm.new("RuleFrame", "inner", 0))
                        state.pos = p
                        state.neg_pred_depth = 1 if neg else 0
                        cm.call(state, "fail", label, **({"force": True} if neg else {}))
                    state.neg_pred_depth = 0
                    err = cm.new("PestParsingError", state)
                    shown = cm.call(err, "__str__")
                    cm.call(err, "detailed_message")
                except ModelRaise as e:
                    bad.append(("rendering a parse failure raises", f"{desc}: {e}"))
                    continue
                if not isinstance(shown, str):
                    bad.append(("str() of a parse failure is not a string", f"{desc}: {shown!r}"))
                    continue
                if hist:
                    ln, col = ref_line_col(text, p)
                    if f"{ln}:{col}" not in shown:
                        bad.append(("the message does not show the line:column of the recorded position", f"{desc}: the position is at {ln}:{col}; message {shown!r}"))
                    names = set(model_attr(cm, state, "furthest_expected")) | set(model_attr(cm, state, "furthest_unexpected"))
                    if not names <= {"r", "inner"}:
                        bad.append(("the failure lists a name that is not a rule on the rule stack", f"{desc}: {sorted(names)}"))
    # join_with_limit near its limit: the full join is tried with the *last* separator, the truncation loop counts with
    # the plain one - every relation of the two totals to the limit, for lists of one to four names of three lengths
    jwl = cm.env.get("join_with_limit")
    if jwl is None:
        if "exceptions.py" in " ".join(cm.rels):
            raise AnalysisError(f"{where}: anchor vanished: join_with_limit()")
        return n, bad
    import itertools  # noqa: PLC0415

    names = {1: "a", 3: "bcd", 7: "efghijk"}
    for limit in (0, 1, 8, 9, 10, 11, 12, 14, 20):
        for k in (1, 2, 3, 4):
            for lens in itertools.product((1, 3, 7), repeat=k):
                items = [names[x] for x in lens]
                for last in (" or ", None):
                    n += 1
                    desc = f"join_with_limit({items}, ', ', {last!r}, {limit})"
                    try:
                        got = jwl(list(items), ", ", last, limit)
                    except ModelRaise as err:
                        bad.append((f"join_with_limit raises {str(err).split(':')[0]}", f"{desc}: {err}"))
                        continue
                    # (that the result respects the limit is the function's own documentation, not the property: on
                    # today's tree ['a', 'efghijk'] with limit 11 gives the 12 characters 'a or efghijk'; not judged)
                    if not isinstance(got, str):
                        bad.append(("join_with_limit does not return a string", f"{desc}: {got!r}"))
    return n, bad
