"""Symbolic linear cursor analysis for the escape decoder (C12 CURSOR rule).

Indices are linear forms over the symbols I (index on entry = position of the escape
letter), C (position found by ``value.find("}", ...)``) and R (index returned by a
callee).  No concrete string is involved.  On every returning path the returned index
must equal the position of the last character the path consumed.
"""

from __future__ import annotations

import ast

from .core import AnalysisError

Form = tuple  # (('I', c), ('C', c), ..., (1, const)) as a sorted tuple


def form(**kw: int) -> Form:
    return tuple(sorted(((k if k != "one" else 1, v) for k, v in kw.items() if v != 0), key=lambda x: str(x[0])))


def add(a: Form, b: Form, sign: int = 1) -> Form:
    acc: dict = {}
    for k, v in a:
        acc[k] = acc.get(k, 0) + v
    for k, v in b:
        acc[k] = acc.get(k, 0) + sign * v
    return tuple(sorted(((k, v) for k, v in acc.items() if v != 0), key=lambda x: str(x[0])))


def const(n: int) -> Form:
    return ((1, n),) if n else ()


def show(f: Form) -> str:
    if not f:
        return "0"
    out = []
    for k, v in f:
        out.append(str(v) if k == 1 else (k if v == 1 else f"{v}*{k}"))
    return "+".join(out).replace("+-", "-")


class Path:
    def __init__(self, env: dict, reads: list):
        self.env = dict(env)
        self.reads = list(reads)


class CursorExec:
    def __init__(self, funcs: dict[str, ast.FunctionDef], where: str):
        self.funcs = funcs
        self.where = where
        self.nsym = 0

    def ev(self, node: ast.AST, p: Path) -> Form | None:
        if isinstance(node, ast.Constant) and isinstance(node.value, int) and not isinstance(node.value, bool):
            return const(node.value)
        if isinstance(node, ast.Name):
            return p.env.get(node.id)
        if isinstance(node, ast.BinOp) and isinstance(node.op, (ast.Add, ast.Sub)):
            l, r = self.ev(node.left, p), self.ev(node.right, p)
            if l is None or r is None:
                return None
            return add(l, r, 1 if isinstance(node.op, ast.Add) else -1)
        return None

    def note_reads(self, node: ast.AST, p: Path) -> None:
        for n in ast.walk(node):
            if isinstance(n, ast.Subscript) and isinstance(n.value, ast.Name) and n.value.id == "value":
                if isinstance(n.slice, ast.Slice):
                    lo = self.ev(n.slice.lower, p) if n.slice.lower is not None else None
                    hi = self.ev(n.slice.upper, p) if n.slice.upper is not None else None
                    if hi is not None:
                        p.reads.append(add(hi, const(1), -1))
                    if lo is not None:
                        p.reads.append(lo)
                else:
                    i = self.ev(n.slice, p)
                    if i is not None:
                        p.reads.append(i)
            if isinstance(n, ast.Call) and isinstance(n.func, ast.Attribute) and isinstance(n.func.value, ast.Name) and n.func.value.id == "value" and n.func.attr == "startswith" and len(n.args) == 2:
                i = self.ev(n.args[1], p)
                if i is not None:
                    p.reads.append(i)

    def run(self, fname: str, entry_index: Form) -> list[tuple[Form | None, list]]:
        """Returns [(returned index form, reads)] for every returning path."""
        fn = self.funcs.get(fname)
        if fn is None:
            raise AnalysisError(f"anchor vanished: {self.where}::{fname}")
        params = [a.arg for a in fn.args.args]
        if "index" not in params:
            raise AnalysisError(f"{self.where}::{fname}: no index parameter")
        results: list = []
        self.block(fn.body, Path({"index": entry_index}, []), results)
        return results

    def block(self, stmts: list[ast.stmt], p: Path, results: list) -> bool:
        """Execute; returns False if the path ended (return / raise)."""
        for s in stmts:
            if not self.stmt(s, p, results):
                return False
        return True

    def stmt(self, s: ast.stmt, p: Path, results: list) -> bool:  # noqa: PLR0911, PLR0912
        if isinstance(s, ast.Raise):
            return False
        if isinstance(s, ast.Return):
            self.note_reads(s, p)
            idx = None
            if isinstance(s.value, ast.Tuple) and len(s.value.elts) == 2:
                idx = self.ev(s.value.elts[1], p)
            results.append((idx, list(p.reads), ast.unparse(s)))
            return False
        if isinstance(s, ast.Try):
            if not self.block(s.body, p, results):
                return False
            return True
        if isinstance(s, ast.If):
            self.note_reads(s.test, p)
            body_p = Path(p.env, p.reads)
            self.block(s.body, body_p, results)
            if s.orelse:
                else_p = Path(p.env, p.reads)
                cont = self.block(s.orelse, else_p, results)
                if cont:
                    p.env, p.reads = else_p.env, else_p.reads
                return cont or self._body_continues(s.body)
            # the fall-through path continues with the state before the if unless the body falls through too
            return True
        if isinstance(s, ast.AugAssign) and isinstance(s.target, ast.Name):
            self.note_reads(s.value, p)
            cur = p.env.get(s.target.id)
            v = self.ev(s.value, p)
            if cur is not None and v is not None and isinstance(s.op, (ast.Add, ast.Sub)):
                p.env[s.target.id] = add(cur, v, 1 if isinstance(s.op, ast.Add) else -1)
            else:
                p.env.pop(s.target.id, None)
            return True
        if isinstance(s, ast.Assign):
            self.note_reads(s.value, p)
            t = s.targets[0]
            v = s.value
            if isinstance(t, ast.Name):
                if isinstance(v, ast.Call) and isinstance(v.func, ast.Attribute) and v.func.attr == "find" and isinstance(v.func.value, ast.Name) and v.func.value.id == "value":
                    self.nsym += 1
                    p.env[t.id] = form(C=1)
                    p.reads.append(form(C=1))
                else:
                    f = self.ev(v, p)
                    if f is not None:
                        p.env[t.id] = f
                    else:
                        p.env.pop(t.id, None)
                return True
            if isinstance(t, ast.Tuple) and isinstance(v, ast.Call) and isinstance(v.func, ast.Name) and v.func.id in self.funcs:
                # (x, index) = callee(value, index, ...)
                arg = self.ev(v.args[1], p) if len(v.args) > 1 else None
                if arg is None:
                    raise AnalysisError(f"{self.where}: call {ast.unparse(v)} with a non-linear index")
                sub = self.run(v.func.id, arg)
                if not sub:
                    return False
                # all returning paths of the callee must agree on the returned form
                forms = {r[0] for r in sub}
                if len(forms) != 1 or None in forms:
                    raise AnalysisError(f"{self.where}: callee {v.func.id} returns non-uniform indices {[show(f) if f else None for f in forms]}")
                for r in sub:
                    p.reads.extend(r[1])
                names = [e.id if isinstance(e, ast.Name) else None for e in t.elts]
                if len(names) == 2 and names[1]:
                    p.env[names[1]] = next(iter(forms))
                return True
            return True
        if isinstance(s, (ast.Expr, ast.Pass, ast.Assert, ast.AnnAssign)):
            self.note_reads(s, p)
            return True
        if isinstance(s, ast.For):
            return True
        raise AnalysisError(f"{self.where}: cursor analysis does not know statement {type(s).__name__}")

    @staticmethod
    def _body_continues(body: list[ast.stmt]) -> bool:
        return not (body and isinstance(body[-1], (ast.Return, ast.Raise)))


def last_read(reads: list) -> Form | None:
    if not reads:
        return None
    with_c = [r for r in reads if any(k == "C" for k, _ in r)]
    pool = with_c or reads
    best = None
    for r in pool:
        base = tuple((k, v) for k, v in r if k != 1)
        c = next((v for k, v in r if k == 1), 0)
        if best is None:
            best = (base, c)
        elif base == best[0]:
            best = (base, max(best[1], c))
        else:
            return None  # incomparable
    return tuple(sorted(list(best[0]) + ([(1, best[1])] if best[1] else []), key=lambda x: str(x[0])))
