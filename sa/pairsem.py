"""C06 ACCESSOR (semantic) — the accessors of pairs.py report the tree they are given.

Every accessor is a structural recursion that treats each node uniformly: it looks at
the node's own fields and hands each child, in some order, to the same accessor.  Its
correctness is an induction over the tree whose step involves one node and its children;
trees of depth <= 2 with 0, 1 or 2 children per node (tagged and untagged) exhibit every
local shape of that step.  The accessors are evaluated from their syntax trees
(sa/objmodel.py, sa/ordabs.py) on all such trees and compared with a reference computed
on the checker's own description of the tree.  pairs.py is never imported.
"""

from __future__ import annotations

import itertools
from typing import Any

from .objmodel import ClassModel
from .ordabs import ModelRaise, Obj

INPUT = "abcdefghij"


class T:
    """The checker's own description of a tree node."""

    def __init__(self, name: str, start: int, end: int, tag: str | None, children: list["T"]):
        self.name, self.start, self.end, self.tag, self.children = name, start, end, tag, children
        self.obj: Obj | None = None
        self.rule: Obj | None = None

    def tokens(self) -> list[tuple[str, str, int]]:
        out = [("Start", self.name, self.start)]
        for c in self.children:
            out.extend(c.tokens())
        out.append(("End", self.name, self.end))
        return out

    def pre(self) -> list["T"]:
        out = [self]
        for c in self.children:
            out.extend(c.pre())
        return out

    def dump(self) -> dict:
        d: dict = {"rule": self.name, "span": {"str": INPUT[self.start:self.end], "start": self.start, "end": self.end}, "inner": [c.dump() for c in self.children]}
        if self.tag is not None:
            d["node_tag"] = self.tag
        return d


def shapes(depth: int) -> list[Any]:
    """Tree shapes as nested tuples of children; () is a leaf."""
    if depth == 0:
        return [()]
    sub = shapes(depth - 1)
    out: list[Any] = [()]
    for k in (1, 2):
        out.extend(itertools.product(sub, repeat=k))
    return out


def build(shape: Any, start: int, counter: list[int], tag_every: int) -> tuple[T, int]:
    """Lay the shape out over INPUT: a leaf covers one character, an inner node its children plus one on each side."""
    counter[0] += 1
    me = counter[0]
    name = f"r{me}"
    tag = f"t{me}" if tag_every and me % tag_every == 0 else None
    if not shape:
        return T(name, start, start + 1, tag, []), start + 1
    pos = start + 1
    kids = []
    for s in shape:
        k, pos = build(s, pos, counter, tag_every)
        kids.append(k)
    return T(name, start, pos + 1, tag, kids), pos + 1


def materialise(cm: ClassModel, t: T) -> Obj:
    kids = [materialise(cm, c) for c in t.children]
    t.rule = Obj("Rule", name=t.name)
    t.obj = cm.new("Pair", INPUT, t.start, t.end, t.rule, kids if kids else None, t.tag)
    return t.obj


def forests(depth: int) -> list[list[Any]]:
    sh = shapes(depth)
    out = [[s] for s in sh]
    small = shapes(1)
    out.extend([a, b] for a in small for b in small)
    out.append([])
    return out


def check(cm: ClassModel, depth: int = 2) -> tuple[int, dict[str, str]]:
    """Returns (trees evaluated, {accessor: first mismatch})."""
    bad: dict[str, str] = {}
    n = 0

    def fail(acc: str, why: str) -> None:
        bad.setdefault(acc, why)

    def guard(acc: str, fn):  # noqa: ANN001, ANN202
        try:
            return True, fn()
        except ModelRaise as err:
            fail(acc, f"raises {err}")
            return False, None

    for forest in forests(depth):
        for tag_every in (0, 2):
            if len(INPUT) < 10:
                break
            counter = [0]
            pos = 0
            roots: list[T] = []
            too_long = False
            for s in forest:
                t, pos = build(s, pos, counter, tag_every)
                if pos > len(INPUT) + 40:
                    too_long = True
                roots.append(t)
            if too_long:
                continue
            n += 1
            objs = [materialise(cm, t) for t in roots]
            pairs = cm.new("Pairs", list(objs))
            desc = f"forest {forest!r}" + (" (tagged)" if tag_every else "")
            allnodes = [x for t in roots for x in t.pre()]
            # --- per node accessors
            for t in allnodes:
                o = t.obj
                assert o is not None
                ok, toks = guard("Pair.tokens", lambda o=o: list(cm.call(o, "tokens")))
                if ok:
                    got = [(k.kinds[0], k.rule.name if isinstance(k.rule, Obj) else None, k.pos) for k in toks]
                    if got != t.tokens():
                        fail("Pair.tokens", f"{desc}: node {t.name} yields {got}, the tree has {t.tokens()}")
                    elif toks and (toks[0].rule is not t.rule or toks[-1].rule is not t.rule):
                        fail("Pair.tokens", f"{desc}: node {t.name}: tokens do not carry the pair's rule object")
                want_text = INPUT[t.start:t.end]
                for acc in ("text", "__str__", "as_str"):
                    ok, v = guard(f"Pair.{acc}", lambda o=o, acc=acc: cm.call(o, acc))
                    if ok and v != want_text:
                        fail(f"Pair.{acc}", f"{desc}: node {t.name} [{t.start}:{t.end}] gives {v!r}, input[start:end] is {want_text!r}")
                ok, sp = guard("Pair.span", lambda o=o: cm.call(o, "span"))
                if ok and not (isinstance(sp, Obj) and (sp.__dict__.get("text"), sp.__dict__.get("start"), sp.__dict__.get("end")) == (INPUT, t.start, t.end)):
                    fail("Pair.span", f"{desc}: node {t.name}: span() is not (input, {t.start}, {t.end})")
                ok, it = guard("Pair.__iter__", lambda o=o: cm.call(o, "__iter__"))
                if ok and [id(x) for x in it] != [id(c.obj) for c in t.children]:
                    fail("Pair.__iter__", f"{desc}: node {t.name}: iteration is not the children in order")
                ok, inner = guard("Pair.inner", lambda o=o: cm.call(cm.call(o, "inner"), "__iter__"))
                if ok and [id(x) for x in inner] != [id(c.obj) for c in t.children]:
                    fail("Pair.inner", f"{desc}: node {t.name}: inner() is not the children in order")
                ok, texts = guard("Pair.inner_texts", lambda o=o: cm.call(o, "inner_texts"))
                if ok and texts != [INPUT[c.start:c.end] for c in t.children]:
                    fail("Pair.inner_texts", f"{desc}: node {t.name}: inner_texts is {texts}")
                ok, d = guard("Pair.dump", lambda o=o: cm.call(o, "dump"))
                if ok and d != t.dump():
                    fail("Pair.dump", f"{desc}: node {t.name}: dump() is {d}, the tree is {t.dump()}")
                for f_, want in (("input", INPUT), ("start", t.start), ("end", t.end), ("tag", t.tag), ("name", t.name)):
                    if o.__dict__.get(f_) != want:
                        fail("Pair.__init__", f"{desc}: node {t.name}: field {f_} is {o.__dict__.get(f_)!r}, constructed with {want!r}")
                if o.__dict__.get("rule") is not t.rule:
                    fail("Pair.__init__", f"{desc}: node {t.name}: field rule is not the rule it was constructed with")
                kids = o.__dict__.get("children")
                if not isinstance(kids, list) or [id(x) for x in kids] != [id(c.obj) for c in t.children]:
                    fail("Pair.__init__", f"{desc}: node {t.name}: children are not stored in order")
            # --- forest accessors
            ok, toks = guard("Pairs.tokens", lambda: list(cm.call(pairs, "tokens")))
            want = [x for t in roots for x in t.tokens()]
            if ok and [(k.kinds[0], k.rule.name, k.pos) for k in toks] != want:
                fail("Pairs.tokens", f"{desc}: yields {[(k.kinds[0], k.rule.name, k.pos) for k in toks]}, the forest has {want}")
            ok, fl = guard("Pairs.flatten", lambda: cm.call(pairs, "flatten"))
            if ok and [id(x) for x in fl] != [id(t.obj) for t in allnodes]:
                fail("Pairs.flatten", f"{desc}: flatten() gives {[getattr(x, 'name', x) for x in fl]}, pre-order is {[t.name for t in allnodes]}")
            ok, ln = guard("Pairs.__len__", lambda: cm.call(pairs, "__len__"))
            if ok and ln != len(roots):
                fail("Pairs.__len__", f"{desc}: len is {ln}")
            ok, it = guard("Pairs.__iter__", lambda: cm.call(pairs, "__iter__"))
            if ok and [id(x) for x in it] != [id(t.obj) for t in roots]:
                fail("Pairs.__iter__", f"{desc}: iteration is not the root pairs in order")
            for i in range(len(roots)):
                ok, g = guard("Pairs.__getitem__", lambda i=i: cm.call(pairs, "__getitem__", i))
                if ok and g is not roots[i].obj:
                    fail("Pairs.__getitem__", f"{desc}: [{i}] is not root {i}")
            if roots:
                ok, f1 = guard("Pairs.first", lambda: cm.call(pairs, "first"))
                if ok and f1 is not roots[0].obj:
                    fail("Pairs.first", f"{desc}: first() is not the first root pair")
            ok, d = guard("Pairs.dump", lambda: cm.call(pairs, "dump"))
            if ok and d != [t.dump() for t in roots]:
                fail("Pairs.dump", f"{desc}: dump() differs from the forest")
            tags = sorted({t.tag for t in allnodes if t.tag} | {"absent"})
            for tg in tags:
                wantl = [t.obj for t in allnodes if t.tag == tg]
                ok, f1 = guard("Pairs.find_first_tagged", lambda tg=tg: cm.call(pairs, "find_first_tagged", tg))
                if ok and f1 is not (wantl[0] if wantl else None):
                    fail("Pairs.find_first_tagged", f"{desc}: tag {tg}: not the first tagged pair in pre-order")
                ok, fa = guard("Pairs.find_tagged", lambda tg=tg: list(cm.call(pairs, "find_tagged", tg)))
                if ok and [id(x) for x in fa] != [id(x) for x in wantl]:
                    fail("Pairs.find_tagged", f"{desc}: tag {tg}: not the tagged pairs in pre-order")
            # --- stream over the roots
            ok, st = guard("Stream", lambda: cm.call(pairs, "stream"))
            if ok:
                seq = []
                for _ in range(len(roots) + 1):
                    ok1, pk = guard("Stream.peek", lambda: cm.call(st, "peek"))
                    ok2, nx = guard("Stream.next", lambda: cm.call(st, "next"))
                    if not (ok1 and ok2):
                        break
                    if pk is not nx:
                        fail("Stream.peek", f"{desc}: peek() and the following next() differ")
                    seq.append(nx)
                wantseq = [t.obj for t in roots] + [None]
                if len(seq) == len(wantseq) and any(a is not b for a, b in zip(seq, wantseq)):
                    fail("Stream.next", f"{desc}: next() does not step through the pairs in order and end with None")
                if roots:
                    guard("Stream.backup", lambda: cm.call(st, "backup"))
                    ok3, again = guard("Stream.backup", lambda: cm.call(st, "peek"))
                    if ok3 and again is not roots[-1].obj:
                        fail("Stream.backup", f"{desc}: backup() at the end does not return to the last pair")
                # --- histories: a stream is a cursor of its own.  What one walk consumed is not missing from the next
                # stream over the same pairs (pairs.stream() / pair.stream() / pair.inner().stream() called again, after
                # the first was used up), and the public cursor `pos` repositions a stream (rewind, mark and return)
                def drain(s_: Obj, limit: int) -> list:
                    out_ = []
                    for _ in range(limit + 1):
                        x_ = cm.call(s_, "next")
                        out_.append(x_)
                        if x_ is None:
                            break
                    return out_

                want_objs = [t.obj for t in roots] + [None]
                ok, second = guard("Stream", lambda: drain(cm.call(pairs, "stream"), len(roots)))
                if ok and (len(second) != len(want_objs) or any(a is not b for a, b in zip(second, want_objs))):
                    fail("Stream", f"{desc}: a second stream() over the same pairs, taken after the first was consumed, does not start at the first pair again")
                for t in allnodes:
                    if not t.children:
                        continue
                    o = t.obj
                    wk = [c.obj for c in t.children] + [None]
                    for how, mk in (("pair.stream()", lambda o=o: cm.call(o, "stream")), ("pair.inner().stream()", lambda o=o: cm.call(cm.call(o, "inner"), "stream"))):
                        for round_ in (1, 2, 3):
                            ok, got_ = guard("Stream", lambda mk=mk, t=t: drain(mk(), len(t.children)))
                            if ok and (len(got_) != len(wk) or any(a is not b for a, b in zip(got_, wk))):
                                fail("Stream", f"{desc}: node {t.name}: {how}, walk {round_}: the stream does not step through the children from the first one (an earlier walk of the same node is remembered)")
                                break
                if roots:
                    def reposition() -> list:
                        s_ = cm.call(pairs, "stream")
                        drain(s_, len(roots))
                        res = []
                        for k in range(len(roots) + 1):
                            s_.__dict__["pos"] = k
                            res.append((cm.call(s_, "peek"), cm.call(s_, "next")))
                        s_.__dict__["pos"] = 0
                        res.append((cm.call(s_, "peek"), None))
                        return res

                    ok, rp = guard("Stream", reposition)
                    if ok:
                        wantrp = [(x, x) for x in want_objs] + [(want_objs[0], None)]
                        if any(a[0] is not b[0] or (a[1] is not b[1]) for a, b in zip(rp, wantrp)):
                            fail("Stream", f"{desc}: after `stream.pos = k` peek() / next() do not continue at pair k")
    return n, bad


ACCESSORS = ["Pair.__init__", "Pair.tokens", "Pair.text", "Pair.__str__", "Pair.as_str", "Pair.span", "Pair.__iter__", "Pair.inner", "Pair.inner_texts", "Pair.dump",
             "Pairs.tokens", "Pairs.flatten", "Pairs.__len__", "Pairs.__iter__", "Pairs.__getitem__", "Pairs.first", "Pairs.dump", "Pairs.find_first_tagged", "Pairs.find_tagged",
             "Stream", "Stream.peek", "Stream.next", "Stream.backup"]
