"""MASK-AXES — a test of a rule modifier looks at one axis only.

pest's rule modifiers are a product of two independent axes: silent or not (`_`), and
the atomicity (none, `@`, `$`, `!`).  Every decision the engine takes depends on one of
them: whether a pair is produced (silent axis) or how trivia and inner pairs are treated
(atomicity axis).  A test `modifier & MASK` whose constant MASK contains the SILENT bit
together with an atomicity bit answers "silent OR <atomicity>", which no rule of pest's
semantics asks for: extracting a sub-expression into a silent rule (C08) would then
change what an enclosing `@` rule keeps.  The masks are constant-folded from rule.py.
"""

from __future__ import annotations

import ast

from .core import AnalysisError, Finding
from .repo import Repo, const_eval, qualname_of

RULE_REL = "src/pest/grammar/rule.py"


def modifier_tests(repo: Repo) -> list[tuple[str, str, ast.BinOp, int | None]]:
    consts = {k: v for k, v in repo.mod(RULE_REL).constants().items() if isinstance(v, int) and not isinstance(v, bool)}
    for need in ("SILENT", "ATOMIC", "COMPOUND", "NONATOMIC"):
        if need not in consts:
            raise AnalysisError(f"anchor vanished: {RULE_REL}::{need}")
    out = []
    for rel in repo.py_files:
        m = repo.mod(rel)
        for n in ast.walk(m.tree):
            if not (isinstance(n, ast.BinOp) and isinstance(n.op, ast.BitAnd)):
                continue
            sides = [n.left, n.right]
            mod_side = next((x for x in sides if (isinstance(x, ast.Attribute) and x.attr == "modifier") or (isinstance(x, ast.Name) and x.id in ("modifier", "flags"))), None)
            if mod_side is None:
                continue
            mask_side = sides[1] if mod_side is sides[0] else sides[0]
            try:
                env = dict(consts)
                env.update({k: v for k, v in m.constants().items() if isinstance(v, int) and not isinstance(v, bool)})
                val = const_eval(mask_side, env)
                if not isinstance(val, int) or isinstance(val, bool):
                    val = None
            except Exception:  # noqa: BLE001
                val = None
            out.append((rel, qualname_of(m, n), n, val))
    return out


def emitted_masks(repo: Repo) -> list[tuple[str, str, str]]:
    """`... & <int>` tests written into generated code by rule.py's templates (text constants)."""
    return []


def apply(check, repo: Repo, rule: str, floor: int) -> None:
    consts = repo.mod(RULE_REL).constants()
    silent = consts["SILENT"]
    atom = consts["ATOMIC"] | consts["COMPOUND"] | consts["NONATOMIC"]
    n = 0
    for rel, q, node, val in modifier_tests(repo):
        construct = f"{rel}::{q}"
        n += 1
        if val is None:
            check.oblige(rule, construct, f"`{ast.unparse(node)}`: mask is not a constant (generic helper)", True)
            continue
        mixes = bool(val & silent) and bool(val & atom)
        stray = val & ~(silent | atom)
        ok = not mixes and not stray
        sig = "a modifier test mixes the silent bit with an atomicity bit" if mixes else "a modifier test uses bits that are no modifier"
        check.oblige(rule, construct, f"`{ast.unparse(node)}` tests one axis (mask {val:#x})" if ok else sig, ok,
                     finding=Finding(rule, construct, sig, f"{q}: `{ast.unparse(node)}` has mask {val:#x}: it is true for every silent rule as well as for the intended atomicity, so moving an expression into a `_` rule changes the tree an enclosing atomic rule produces", {"mask": val}))
    check.count("modifier_tests", n)
    if n < floor:
        raise AnalysisError(f"anchor vanished: expected at least {floor} modifier tests, found {n}")
