"""Def-use rules for precedence-climbing loops (C18 PrattParser.parse_expr, C17 examples)."""

from __future__ import annotations

import ast

from .core import AnalysisError


def _names(n: ast.AST) -> set[str]:
    return {x.id for x in ast.walk(n) if isinstance(x, ast.Name)}


def lin_eval(node: ast.AST, env: dict) -> tuple[int, int] | None:
    """Evaluate to (coefficient of the precedence variable, constant) or None."""
    if isinstance(node, ast.Constant) and isinstance(node.value, (int, bool)):
        return (0, int(node.value))
    if isinstance(node, ast.Name):
        v = env.get(node.id)
        if v == "P":
            return (1, 0)
        if isinstance(v, (int, bool)):
            return (0, int(v))
        return None
    if isinstance(node, ast.BinOp) and isinstance(node.op, (ast.Add, ast.Sub)):
        l, r = lin_eval(node.left, env), lin_eval(node.right, env)
        if l is None or r is None:
            return None
        s = 1 if isinstance(node.op, ast.Add) else -1
        return (l[0] + s * r[0], l[1] + s * r[1])
    if isinstance(node, ast.IfExp):
        t = truth_eval(node.test, env)
        if t is None:
            return None
        return lin_eval(node.body if t else node.orelse, env)
    if isinstance(node, ast.Call) and isinstance(node.func, ast.Name) and node.func.id == "int" and len(node.args) == 1:
        return lin_eval(node.args[0], env)
    return None


def truth_eval(node: ast.AST, env: dict) -> bool | None:
    if isinstance(node, ast.Name) and isinstance(env.get(node.id), bool):
        return env[node.id]
    if isinstance(node, ast.UnaryOp) and isinstance(node.op, ast.Not):
        t = truth_eval(node.operand, env)
        return None if t is None else not t
    if isinstance(node, ast.Compare) and len(node.ops) == 1 and isinstance(node.ops[0], (ast.Is, ast.Eq)):
        l, r = node.left, node.comparators[0]
        if isinstance(l, ast.Name) and isinstance(env.get(l.id), bool) and isinstance(r, ast.Constant) and isinstance(r.value, bool):
            return env[l.id] == r.value
    return None


class Branch:
    """One operator class inside the loop (or the prefix branch)."""

    def __init__(self, table: str, body: list[ast.stmt], min_param: str, self_call: str, stream_next: tuple[str, ...], prec_table: str | None = None):
        self.table = table
        table = prec_table or table
        self.body = body
        self.reads: list[ast.AST] = []
        self.prec_vars: set[str] = set()
        self.assoc_vars: set[str] = set()
        self.guard_idx: int | None = None
        self.guard_op: str | None = None
        self.consume_idx: int | None = None
        self.rec_calls: list[ast.Call] = []
        self.inline_guard = False
        self.impure: list[tuple[str, str]] = []  # precedence variables that are not the table entry itself
        for i, st in enumerate(body):
            for n in ast.walk(st):
                if isinstance(n, ast.Subscript) and ast.unparse(n.value).endswith(table) and isinstance(n.ctx, ast.Load):
                    self.reads.append(n)
                if isinstance(n, ast.Call) and isinstance(n.func, ast.Attribute) and n.func.attr == "get" and ast.unparse(n.func.value).endswith(table):
                    self.reads.append(n)
                if isinstance(n, ast.Call) and ast.unparse(n.func) == self_call:
                    self.rec_calls.append(n)
            if isinstance(st, ast.Assign) and any(r in list(ast.walk(st.value)) for r in self.reads):
                t = st.targets[0]
                if not any(st.value is r for r in self.reads):
                    self.impure.append((ast.unparse(t), ast.unparse(st.value)))
                if isinstance(t, ast.Name):
                    self.prec_vars.add(t.id)
                elif isinstance(t, ast.Tuple) and t.elts and all(isinstance(e, ast.Name) for e in t.elts):
                    self.prec_vars.add(t.elts[0].id)
                    for e in t.elts[1:]:
                        self.assoc_vars.add(e.id)
            if isinstance(st, ast.If) and self.guard_idx is None and st.body and isinstance(st.body[-1], (ast.Break, ast.Return)) and isinstance(st.test, ast.Compare) and len(st.test.ops) == 1:
                l, r = st.test.left, st.test.comparators[0]
                lv, rv = _names(l), _names(r)
                reads_here = any(x in list(ast.walk(st.test)) for x in self.reads)
                if ((lv & self.prec_vars) or reads_here) and min_param in rv:
                    self.guard_idx, self.guard_op = i, type(st.test.ops[0]).__name__
                    self.inline_guard = reads_here
                elif (rv & self.prec_vars) and min_param in lv:
                    flip = {"Lt": "Gt", "Gt": "Lt", "LtE": "GtE", "GtE": "LtE"}
                    self.guard_idx, self.guard_op = i, flip.get(type(st.test.ops[0]).__name__, type(st.test.ops[0]).__name__)
            if self.consume_idx is None:
                for n in ast.walk(st):
                    if isinstance(n, ast.Call) and ast.unparse(n.func) in stream_next and not isinstance(st, ast.If):
                        self.consume_idx = i
                        break


def find_branches(fn: ast.FunctionDef, tables: dict[str, str], self_call: str, stream_next: tuple[str, ...], prec_table: str | None = None) -> tuple[str, dict[str, Branch], ast.While | None]:
    """tables: role -> table name suffix, e.g. {'prefix': 'PREFIX_OPS', ...}."""
    params = [a.arg for a in fn.args.args]
    if len(params) < 2:
        raise AnalysisError(f"{fn.name}: expected a minimum-precedence parameter")
    min_param = params[-1]
    out: dict[str, Branch] = {}
    loop = next((n for n in ast.walk(fn) if isinstance(n, ast.While)), None)
    for n in ast.walk(fn):
        if isinstance(n, ast.If) and isinstance(n.test, ast.Compare) and len(n.test.ops) == 1 and isinstance(n.test.ops[0], ast.In):
            tname = ast.unparse(n.test.comparators[0])
            for role, suffix in tables.items():
                if tname.endswith(suffix) and role not in out:
                    out[role] = Branch(suffix, n.body, min_param, self_call, stream_next, prec_table)
    return min_param, out, loop
