"""A reader for .pest files (independent of the repository's scanner/parser) and an
*exact-or-declined* PEG -> regular translation for lexical productions."""

from __future__ import annotations

from .core import AnalysisError
from .relang import ANY, MAXCP, Lang, compl, norm, witness


class NotRegular(Exception):
    pass


# ----------------------------------------------------------------------------- reader
class PestReader:
    def __init__(self, text: str, where: str):
        self.t = text
        self.i = 0
        self.where = where

    def err(self, msg: str) -> AnalysisError:
        line = self.t.count("\n", 0, self.i) + 1
        return AnalysisError(f"{self.where}:{line}: .pest reader: {msg}")

    def ws(self) -> None:
        while self.i < len(self.t):
            c = self.t[self.i]
            if c in " \t\r\n":
                self.i += 1
            elif self.t.startswith("//", self.i):
                j = self.t.find("\n", self.i)
                self.i = len(self.t) if j < 0 else j
            elif self.t.startswith("/*", self.i):
                depth = 0
                while self.i < len(self.t):
                    if self.t.startswith("/*", self.i):
                        depth += 1
                        self.i += 2
                    elif self.t.startswith("*/", self.i):
                        depth -= 1
                        self.i += 2
                        if depth == 0:
                            break
                    else:
                        self.i += 1
            else:
                break

    def ident(self) -> str | None:
        j = self.i
        if j < len(self.t) and (self.t[j].isalpha() and self.t[j].isascii() or self.t[j] == "_"):
            j += 1
            while j < len(self.t) and (self.t[j].isalnum() and self.t[j].isascii() or self.t[j] == "_"):
                j += 1
            s = self.t[self.i : j]
            self.i = j
            return s
        return None

    def expect(self, s: str) -> None:
        self.ws()
        if not self.t.startswith(s, self.i):
            raise self.err(f"expected {s!r}")
        self.i += len(s)

    def peek(self, s: str) -> bool:
        self.ws()
        return self.t.startswith(s, self.i)

    def rules(self) -> dict:
        out: dict = {}
        while True:
            self.ws()
            if self.i >= len(self.t):
                return out
            name = self.ident()
            if name is None:
                raise self.err("expected a rule name")
            self.expect("=")
            self.ws()
            mod = ""
            if self.i < len(self.t) and self.t[self.i] in "_@$!":
                mod = self.t[self.i]
                self.i += 1
            self.expect("{")
            e = self.expr()
            self.expect("}")
            out[name] = (mod, e)

    def expr(self):
        self.ws()
        if self.peek("|"):
            self.i += 1
        alts = [self.seq()]
        while self.peek("|"):
            self.i += 1
            alts.append(self.seq())
        return alts[0] if len(alts) == 1 else ("choice", alts)

    def seq(self):
        items = [self.term()]
        while self.peek("~"):
            self.i += 1
            items.append(self.term())
        return items[0] if len(items) == 1 else ("seq", items)

    def term(self):
        self.ws()
        if self.peek("#"):
            self.i += 1
            self.ident()
            self.expect("=")
        pre = []
        while True:
            self.ws()
            if self.peek("&"):
                self.i += 1
                pre.append("pos")
            elif self.peek("!"):
                self.i += 1
                pre.append("neg")
            else:
                break
        e = self.node()
        while True:
            self.ws()
            if self.peek("?"):
                self.i += 1
                e = ("opt", e)
            elif self.peek("*"):
                self.i += 1
                e = ("star", e)
            elif self.peek("+"):
                self.i += 1
                e = ("plus", e)
            elif self.peek("{"):
                save = self.i
                self.i += 1
                self.ws()
                lo = self.number()
                hi = lo
                self.ws()
                if self.peek(","):
                    self.i += 1
                    self.ws()
                    hi = self.number()
                    if lo is None and hi is None:
                        self.i = save
                        break
                    if hi is None:
                        hi = "inf"
                elif lo is None:
                    self.i = save
                    break
                self.expect("}")
                e = ("rep", e, lo or 0, hi)
            else:
                break
        for p in reversed(pre):
            e = (p, e)
        return e

    def number(self) -> int | None:
        j = self.i
        while j < len(self.t) and self.t[j].isdigit():
            j += 1
        if j == self.i:
            return None
        v = int(self.t[self.i : j])
        self.i = j
        return v

    def node(self):  # noqa: PLR0911, PLR0912
        self.ws()
        if self.peek("("):
            self.i += 1
            e = self.expr()
            self.expect(")")
            return e
        if self.peek('"'):
            return ("str", self.string('"'))
        if self.peek("^"):
            self.i += 1
            self.ws()
            return ("istr", self.string('"'))
        if self.peek("'"):
            a = self.string("'")
            self.expect("..")
            self.ws()
            b = self.string("'")
            return ("range", a, b)
        name = self.ident()
        if name is None:
            raise self.err(f"unexpected {self.t[self.i:self.i+10]!r}")
        if name in ("PUSH",):
            self.expect("(")
            e = self.expr()
            self.expect(")")
            return ("push", e)
        if name == "PUSH_LITERAL":
            self.expect("(")
            self.ws()
            s = self.string('"')
            self.expect(")")
            return ("push_literal", s)
        if name == "PEEK" and self.peek("["):
            j = self.t.find("]", self.i)
            sl = self.t[self.i + 1 : j]
            self.i = j + 1
            return ("peek_slice", sl)
        return ("id", name)

    def string(self, q: str) -> str:
        if self.t[self.i] != q:
            raise self.err(f"expected {q}")
        self.i += 1
        out = []
        while True:
            if self.i >= len(self.t):
                raise self.err("unterminated literal")
            c = self.t[self.i]
            if c == q:
                self.i += 1
                return "".join(out)
            if c == "\\":
                n = self.t[self.i + 1]
                self.i += 2
                simple = {"n": "\n", "r": "\r", "t": "\t", "0": "\0", "\\": "\\", '"': '"', "'": "'"}
                if n in simple:
                    out.append(simple[n])
                elif n == "x":
                    out.append(chr(int(self.t[self.i : self.i + 2], 16)))
                    self.i += 2
                elif n == "u":
                    j = self.t.find("}", self.i)
                    out.append(chr(int(self.t[self.i + 1 : j], 16)))
                    self.i = j + 1
                else:
                    raise self.err(f"unknown escape \\{n}")
            else:
                out.append(c)
                self.i += 1


def read_pest(text: str, where: str) -> dict:
    return PestReader(text, where).rules()


# ----------------------------------------------------------------------------- built-ins as sets
BUILTIN_SETS = {
    "ANY": ((0, MAXCP),),
    "ASCII_DIGIT": ((48, 57),),
    "ASCII_NONZERO_DIGIT": ((49, 57),),
    "ASCII_BIN_DIGIT": ((48, 49),),
    "ASCII_OCT_DIGIT": ((48, 55),),
    "ASCII_HEX_DIGIT": ((48, 57), (65, 70), (97, 102)),
    "ASCII_ALPHA_LOWER": ((97, 122),),
    "ASCII_ALPHA_UPPER": ((65, 90),),
    "ASCII_ALPHA": ((65, 90), (97, 122)),
    "ASCII_ALPHANUMERIC": ((48, 57), (65, 90), (97, 122)),
    "ASCII": ((0, 127),),
}


# pest's built-in rules for Unicode general categories (the names pest gives them -> General_Category values)
GENERAL_CATEGORIES = {
    "LETTER": ("L",), "CASED_LETTER": ("Lu", "Ll", "Lt"), "UPPERCASE_LETTER": ("Lu",), "LOWERCASE_LETTER": ("Ll",), "TITLECASE_LETTER": ("Lt",),
    "MODIFIER_LETTER": ("Lm",), "OTHER_LETTER": ("Lo",), "MARK": ("M",), "NONSPACING_MARK": ("Mn",), "SPACING_MARK": ("Mc",), "ENCLOSING_MARK": ("Me",),
    "NUMBER": ("N",), "DECIMAL_NUMBER": ("Nd",), "LETTER_NUMBER": ("Nl",), "OTHER_NUMBER": ("No",), "PUNCTUATION": ("P",),
    "CONNECTOR_PUNCTUATION": ("Pc",), "DASH_PUNCTUATION": ("Pd",), "OPEN_PUNCTUATION": ("Ps",), "CLOSE_PUNCTUATION": ("Pe",),
    "INITIAL_PUNCTUATION": ("Pi",), "FINAL_PUNCTUATION": ("Pf",), "OTHER_PUNCTUATION": ("Po",), "SYMBOL": ("S",), "MATH_SYMBOL": ("Sm",),
    "CURRENCY_SYMBOL": ("Sc",), "MODIFIER_SYMBOL": ("Sk",), "OTHER_SYMBOL": ("So",), "SEPARATOR": ("Z",), "SPACE_SEPARATOR": ("Zs",),
    "LINE_SEPARATOR": ("Zl",), "PARAGRAPH_SEPARATOR": ("Zp",), "OTHER": ("C",), "CONTROL": ("Cc",), "FORMAT": ("Cf",), "SURROGATE": ("Cs",),
    "PRIVATE_USE": ("Co",), "UNASSIGNED": ("Cn",),
}
_CATEGORY_SETS: dict[str, tuple] = {}


def in_category(name: str, ch: str) -> bool:
    import unicodedata

    cat = unicodedata.category(ch)
    return any(cat == c or (len(c) == 1 and cat.startswith(c)) for c in GENERAL_CATEGORIES[name])


def category_set(name: str) -> tuple:
    """The code points of a general-category built-in as sorted, merged ranges (computed once per name, from the
    interpreter's unicodedata: the reference side)."""
    if name not in _CATEGORY_SETS:
        out: list[list[int]] = []
        for cp in range(MAXCP + 1):
            if in_category(name, chr(cp)):
                if out and out[-1][1] == cp - 1:
                    out[-1][1] = cp
                else:
                    out.append([cp, cp])
        _CATEGORY_SETS[name] = tuple((a, b) for a, b in out)
    return _CATEGORY_SETS[name]


# ----------------------------------------------------------------------------- PEG -> regular (exact or declined)
class Peg2Re:
    def __init__(self, rules: dict, where: str, extra_sets: dict | None = None):
        self.rules = rules
        self.where = where
        self.stack: list[str] = []
        self.sets = dict(BUILTIN_SETS)
        self.sets.update(extra_sets or {})
        self.checks = 0

    def single_set(self, e) -> tuple | None:
        """The expression as a set of single code points, if it is one."""
        k = e[0]
        if k == "str" and len(e[1]) == 1:
            return ((ord(e[1]), ord(e[1])),)
        if k == "range":
            return ((ord(e[1]), ord(e[2])),)
        if k == "id":
            if e[1] in self.sets:
                return self.sets[e[1]]
            if e[1] in GENERAL_CATEGORIES and e[1] not in self.rules:
                return category_set(e[1])
            if e[1] in self.rules and e[1] not in self.stack:
                self.stack.append(e[1])
                try:
                    return self.single_set(self.rules[e[1]][1])
                finally:
                    self.stack.pop()
            return None
        if k == "choice":
            parts = [self.single_set(a) for a in e[1]]
            if all(p is not None for p in parts):
                iv: list = []
                for p in parts:
                    iv.extend(p)  # type: ignore[arg-type]
                return norm(iv)
        return None

    def tr(self, e):  # noqa: PLR0911, PLR0912
        k = e[0]
        ss = self.single_set(e)
        if ss is not None:
            return ("set", ss)
        if k == "str":
            return ("cat", [("set", ((ord(c), ord(c)),)) for c in e[1]]) if e[1] else ("eps",)
        if k == "istr":
            parts = []
            for c in e[1]:
                iv = {(ord(c), ord(c))}
                if c.isascii() and c.isalpha():
                    iv |= {(ord(c.upper()), ord(c.upper())), (ord(c.lower()), ord(c.lower()))}
                parts.append(("set", norm(iv)))
            return ("cat", parts)
        if k == "id":
            name = e[1]
            if name == "NEWLINE":
                return ("alt", [("set", ((10, 10),)), ("cat", [("set", ((13, 13),)), ("set", ((10, 10),))]), ("set", ((13, 13),))])
            if name in ("SOI", "EOI"):
                raise NotRegular(f"{name} is positional")
            if name not in self.rules:
                raise NotRegular(f"unknown rule {name}")
            if name in self.stack:
                raise NotRegular(f"recursive through {name}")
            body = self.rules[name][1]
            # right recursion  X = A* ~ (B ~ X)?   ==   A* (B A*)*
            if body[0] == "seq" and len(body[1]) == 2 and body[1][0][0] == "star" and body[1][1][0] == "opt":
                tail = body[1][1][1]
                if tail[0] == "seq" and len(tail[1]) == 2 and tail[1][1] == ("id", name):
                    self.stack.append(name)
                    try:
                        a = self.tr(body[1][0][1])
                        b = self.tr(tail[1][0])
                    finally:
                        self.stack.pop()
                    self.require_disjoint(a, b, "right-recursive loop whose body and separator can match the same prefix")
                    return ("cat", [("star", a), ("star", ("cat", [b, ("star", a)]))])
            self.stack.append(name)
            try:
                return self.tr(body)
            finally:
                self.stack.pop()
        if k == "seq":
            items = e[1]
            out = []
            i = 0
            while i < len(items):
                it = items[i]
                # !x ~ ANY  where x is a single-character set  ->  complement set
                if it[0] == "neg" and i + 1 < len(items):
                    neg = self.single_set(it[1])
                    nxt = self.single_set(items[i + 1])
                    if neg is not None and nxt is not None:
                        keep = norm([(max(a, c), min(b, d)) for a, b in nxt for c, d in compl(neg)])
                        out.append(("set", keep))
                        i += 2
                        continue
                    raise NotRegular("negative predicate over something other than a single-character set")
                if it[0] in ("neg", "pos"):
                    raise NotRegular("predicate in a position the translation does not cover")
                out.append(self.tr(it))
                i += 1
            # greedy star / optional followed by something that can start the same way is not regular-exact
            for a, b in zip(items, items[1:], strict=False):
                if a[0] in ("star", "plus", "opt", "rep"):
                    self.require_disjoint(self.tr(a[1]), self.tr_rest(items[items.index(b):]), f"greedy {a[0]} followed by an overlapping continuation")
            return ("cat", out)
        if k == "choice":
            alts = [self.tr(a) for a in e[1]]
            for i in range(len(alts)):
                for j in range(i + 1, len(alts)):
                    self.require_disjoint(alts[i], alts[j], "ordered choice whose alternatives can match the same prefix")
            return ("alt", alts)
        if k == "opt":
            return ("opt", self.tr(e[1]))
        if k == "star":
            return ("star", self.tr(e[1]))
        if k == "plus":
            r = self.tr(e[1])
            return ("cat", [r, ("star", r)])
        if k == "rep":
            return ("rep", self.tr(e[1]), e[2], None if e[3] == "inf" else e[3])
        raise NotRegular(f"{k} is not a regular construct")

    def tr_rest(self, items: list):
        out = []
        for it in items:
            if it[0] in ("neg", "pos"):
                break
            out.append(self.tr(it))
        return ("cat", out) if out else ("eps",)

    def require_disjoint(self, a, b, why: str) -> None:
        """No input may have a prefix in L(a) and a prefix in L(b) where both are non-empty."""
        self.checks += 1
        sigma = ("star", ANY)
        w, _ = witness((Lang.of(("cat", [_nonempty(a), sigma]))) & (Lang.of(("cat", [_nonempty(b), sigma]))))
        if w is not None:
            raise NotRegular(f"{why} (e.g. input {w!r})")


def _nonempty(r):
    """r minus the empty word, structurally (sound over-approximation is fine: it only
    makes the disjointness requirement stronger)."""
    return ("cat", [r, ("eps",)]) if not _nullable(r) else _strip_eps(r)


def _nullable(r) -> bool:
    k = r[0]
    if k == "eps":
        return True
    if k in ("set", "empty"):
        return False
    if k == "cat":
        return all(_nullable(x) for x in r[1])
    if k == "alt":
        return any(_nullable(x) for x in r[1])
    if k in ("star", "opt"):
        return True
    if k == "rep":
        return r[2] == 0 or _nullable(r[1])
    return False


def _strip_eps(r):
    """A regex for L(r) \\ {eps} for the nullable shapes that occur (star / opt / cat of them)."""
    k = r[0]
    if k == "star":
        return ("cat", [_nonempty(r[1]), r])
    if k == "opt":
        return _nonempty(r[1])
    if k == "rep":
        return ("cat", [_nonempty(r[1]), ("rep", r[1], max(r[2] - 1, 0), None if r[3] is None else max(r[3] - 1, 0))])
    if k == "alt":
        return ("alt", [_nonempty(x) for x in r[1]])
    if k == "cat":
        # first non-empty factor at position i, preceded by nullable factors taken empty
        alts = []
        for i, x in enumerate(r[1]):
            alts.append(("cat", [_nonempty(x)] + list(r[1][i + 1 :])))
            if not _nullable(x):
                break
        return ("alt", alts)
    if k == "eps":
        return ("empty",)
    return r
