#!/usr/bin/env python3
"""tools/eval_many.py <dir> [<dir> ...] [--jobs N] [--out NAME]  — every check's quick command on a scratch copy of /repo
with each directory's patch.diff applied, all (patch, check) pairs in one pool of processes.

Writes <dir>/<NAME> (default eval.json) in the format of tools/eval_dir.py and prints one summary line per directory.
/repo itself is not touched; the scratch copies live under a temporary directory and are removed at the end."""
import json
import os
import shutil
import subprocess
import sys
import tempfile
from concurrent.futures import ThreadPoolExecutor
from pathlib import Path

VERIF = Path(__file__).resolve().parent.parent
REPO = Path("/repo")
PROPS = [f"C{i:02d}" for i in range(1, 19)]


def main() -> int:
    args = sys.argv[1:]
    jobs = 16
    out_name = "eval.json"
    dirs = []
    i = 0
    while i < len(args):
        if args[i] == "--jobs":
            jobs = int(args[i + 1])
            i += 2
        elif args[i] == "--out":
            out_name = args[i + 1]
            i += 2
        else:
            dirs.append(Path(args[i]).resolve())
            i += 1
    root = Path(tempfile.mkdtemp(prefix="sa-evalmany-"))
    copies: dict[Path, Path] = {}
    try:
        for k, d in enumerate(dirs):
            tmp = root / f"c{k}"
            for sub in ("src", "examples", "tests/grammars"):
                shutil.copytree(REPO / sub, tmp / sub, ignore=shutil.ignore_patterns("__pycache__", "*.pyc"))
            shutil.copy(REPO / "pyproject.toml", tmp / "pyproject.toml")
            p = subprocess.run(["git", "apply", "--unsafe-paths", f"--directory={tmp}", str(d / "patch.diff")], cwd="/", capture_output=True, text=True)
            if p.returncode:
                print(f"{d}: PATCH DOES NOT APPLY {p.stderr[-200:]}")
                continue
            copies[d] = tmp

        def one(job: tuple) -> tuple:
            d, prop = job
            env = dict(os.environ, SA_REPO=str(copies[d]), SA_NO_EVIDENCE="1")
            r = subprocess.run(["/venv/bin/python", "-m", "sa", prop, "--tier", "quick"], cwd=str(VERIF), env=env, capture_output=True, text=True, timeout=1800)
            o = r.stdout + r.stderr
            lines = [ln for ln in o.splitlines() if ln.startswith("  ") and not ln.startswith("      ")][:6]
            if r.returncode == 2:
                lines = [ln for ln in o.splitlines() if "ANALYSIS-ERROR" in ln][:3]
            return d, prop, r.returncode, lines

        # the first check of each copy builds its mypy table; run those first, then everything else
        res: dict[Path, dict] = {d: {} for d in copies}
        with ThreadPoolExecutor(max_workers=jobs) as ex:
            for d, prop, rc, lines in ex.map(one, [(d, "C07") for d in copies]):
                res[d][prop] = {"rc": rc, "lines": lines}
            for d, prop, rc, lines in ex.map(one, [(d, p) for d in copies for p in PROPS if p != "C07"]):
                res[d][prop] = {"rc": rc, "lines": lines}
        for d in copies:
            r = res[d]
            out = {"checks": r, "fired": sorted(p for p, v in r.items() if v["rc"] == 1), "analysis_error": sorted(p for p, v in r.items() if v["rc"] == 2)}
            conf = d / "confirm.json"
            if conf.exists():
                out["confirm"] = json.loads(conf.read_text())
            (d / out_name).write_text(json.dumps(out, indent=1) + "\n")
            print(f"{d.parent.name}/{d.name}: fired={out['fired']} undecided={out['analysis_error']}")
    finally:
        shutil.rmtree(root, ignore_errors=True)
    return 0


if __name__ == "__main__":
    sys.exit(main())
