#!/usr/bin/env python3
"""tools/round_eval.py <agent-output-dir> [a b r]  — confirm and evaluate what one sub-agent delivered.

<agent-output-dir> holds a/, b/ (breaking changes) and r/ (a behaviour-preserving refactoring), each with patch.diff
and demo.py.  For each: the change is confirmed in a throw-away worktree of /repo's HEAD (tools/seed_eval.py: demo
passes clean, patch applies, suite still 678 passed, demo fails with the patch — for r/: passes, and prints the same
output), then every check's quick command is run on a scratch copy of /repo with the patch applied
(tools/eval_dir.py).  /repo itself is never touched.  Prints one summary line per piece.
"""
import json
import os
import subprocess
import sys
import tempfile
from pathlib import Path

HERE = Path(__file__).resolve().parent
PY = "/venv/bin/python"
REPO = "/repo"


def sh(cmd: str, cwd: str | None = None, env: dict | None = None) -> tuple[int, str]:
    e = dict(os.environ)
    e.update(env or {})
    p = subprocess.run(cmd, shell=True, cwd=cwd, env=e, capture_output=True, text=True, timeout=1800)
    return p.returncode, p.stdout + p.stderr


def demo_outputs(d: Path) -> str:
    """Demo output on a clean HEAD worktree vs HEAD + patch (refactorings)."""
    wt = tempfile.mkdtemp(prefix="r6wt-")
    os.rmdir(wt)
    try:
        sh(f"git -C {REPO} worktree add -q --detach {wt} HEAD")
        env = {"PYTHONPATH": f"{wt}/src:{wt}", "SEED_CHECKOUT": wt}
        os.makedirs(f"{wt}/_seed/x", exist_ok=True)
        sh(f"cp {d}/demo.py {wt}/_seed/x/demo.py")
        rc1, o1 = sh(f"{PY} {wt}/_seed/x/demo.py", cwd=wt, env=env)
        sh(f"git apply {d}/patch.diff", cwd=wt)
        rc2, o2 = sh(f"{PY} {wt}/_seed/x/demo.py", cwd=wt, env=env)
    finally:
        sh(f"git -C {REPO} worktree remove --force {wt}")
        sh(f"git -C {REPO} worktree prune")
    same = rc1 == 0 and rc2 == 0 and o1.replace(wt, "") == o2.replace(wt, "")
    return f"{'identical' if same else 'DIFFERENT'} (rc {rc1} / {rc2}, {len(o1)} bytes)"


def main() -> int:
    base = Path(sys.argv[1]).resolve()
    which = sys.argv[2:] or ["a", "b", "r"]
    for w in which:
        d = base / w
        if not (d / "patch.diff").exists() or not (d / "demo.py").exists():
            print(f"{base.name}/{w}: MISSING patch.diff or demo.py")
            continue
        refactor = w == "r"
        rc, o = sh(f"{PY} {HERE}/seed_eval.py {d} --confirm --confirm-only" + (" --refactor" if refactor else ""))
        conf = json.loads((d / "confirm.json").read_text()) if (d / "confirm.json").exists() else {}
        if not conf.get("confirmed"):
            print(f"{base.name}/{w}: NOT CONFIRMED {json.dumps(conf)[:400]}")
            continue
        if refactor:
            head = demo_outputs(d)
            (d / "headcmp.txt").write_text(head + "\n")
            (d / "confirmH.json").write_text(json.dumps(conf, indent=1))
            if not head.startswith("identical"):
                print(f"{base.name}/{w}: REFACTORING CHANGES THE DEMO OUTPUT: {head}")
                continue
        rc, o = sh(f"{PY} {HERE}/eval_dir.py {d}")
        ev = json.loads((d / "eval.json").read_text()) if (d / "eval.json").exists() else {}
        if refactor:
            (d / "evalH.json").write_text(json.dumps(ev, indent=1))
        print(f"{base.name}/{w}: confirmed; fired={ev.get('fired')} undecided={ev.get('analysis_error')}" + (f" demo {head}" if refactor else ""))
        files = subprocess.run(f"grep '^+++ ' {d}/patch.diff | cut -c7-", shell=True, capture_output=True, text=True).stdout.split()
        print(f"    files: {files}")
        for p in ev.get("fired", [])[:6]:
            for ln in ev["checks"][p]["lines"][:2]:
                print(f"    {p}: {ln.strip()[:230]}")
        for p in ev.get("analysis_error", [])[:4]:
            for ln in ev["checks"][p]["lines"][:1]:
                print(f"    {p}: {ln.strip()[:230]}")
    return 0


if __name__ == "__main__":
    sys.exit(main())
