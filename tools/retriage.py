#!/usr/bin/env python3
"""Record, for every SAFE entry of sa/triage_escape.py, the digest of the function the
site lives in (AST without positions or docstrings).  A SAFE reason was written for that
version of the function; if the function changes the entry is no longer trusted and the
check stops with ANALYSIS-ERROR until the site has been read again and this tool re-run.

    /venv/bin/python tools/retriage.py        # rewrites sa/triage_digests.json
"""
import json
import sys
from pathlib import Path

sys.path.insert(0, str(Path(__file__).resolve().parent.parent))
from sa.escape_props import function_digest  # noqa: E402
from sa.repo import Repo  # noqa: E402
from sa.triage_escape import TRIAGE  # noqa: E402

repo = Repo()
out = {}
for key in TRIAGE:
    func, _kind, expr, _exc = (key.split("|") + ["", "", ""])[:4]
    d = function_digest(repo, func, expr)
    if d is not None:
        out[key] = d
(Path(__file__).resolve().parent.parent / "sa" / "triage_digests.json").write_text(json.dumps(out, indent=1, sort_keys=True) + "\n")
print(f"{len(out)} sites recorded for {len(TRIAGE)} entries")
