# Table consumed by mkmanifest.py:  check(pid, technique, level text, level note, design ref)
OPS_TECH = "path-sensitive typestate over parse() bodies and generate() template skeletons (abstract path enumeration, operator specification replay)"

check("C03", OPS_TECH,
      "Static, per-operator assume/guarantee: every abstract path of every interpreter parse() of a core operator satisfies contract K (checkpoint balance, no attempt from a dirty state, output pairs == retained sub-matches) and replays against the operator specification table (ordered choice, greedy repetition, bounds = unrolled forms, predicates consume nothing, one Pair per successful non-silent rule). By induction over the expression tree this covers every grammar and input for these clauses, which sampling cannot.",
      "Necessary conditions only; primitives (str.startswith, regex, list, Stack) trusted; termination not decided.", "§3.2, §4 C03")
check("C04", OPS_TECH,
      "Static: trivia placement in the retained trace of Sequence/repetitions on both siblings vs the specification table, parse_trivia siblings analysed as operators, modifier table of Rule.parse/skeletons for 8 masks x 3 name classes, shape-insensitivity, no trivia in stack terminals, unrolled-form normalisation of delegating operators.",
      "Which pairs pest hides under @ in every nesting is not decided (needs callee's dynamic atomicity); known finding F-A2 recorded. Trivia rules assumed not to use the user stack.", "§4 C04")
check("C05", OPS_TECH + "; component-coverage set comparison",
      "Static: both siblings of the seven stack operations enumerated over entry stacks of 0..2(3) symbolic entries with ParserState/Stack helpers inlined from source: entries matched, order, stack after success, advance, no raise, no trivia; PUSH pushes input[start:pos] only on success; undo-on-backtracking via R1/R2 on every backtracking operator plus component coverage of checkpoint/ok/restore.",
      "That Stack.restore returns the snapshot's contents is C09 (delta encoding not decided statically).", "§4 C05")
check("C06", OPS_TECH + "; accessor shape facts",
      "Static: Pair construction obligations on every path of Rule.parse and all Rule skeleton variants (start/end/input/rule/children/tag provenance, exactly one Pair on non-silent success, none otherwise); K2 on every other operator (no junk/dead/dropped/duplicated pair reaches a result); accessor shape facts in pairs.py (tokens balanced and ordered, flatten pre-order, fields stored unswapped).",
      "Numeric span relations are consequences of the construction obligations plus position-write discipline and trusted primitives; not separately computed.", "§4 C06")
check("C08", OPS_TECH,
      "Static: the six rewrites are invisible iff abandoned attempts and lookaheads leave no trace and grouping/silent frames are transparent: R1/R2/K2 on all backtracking operators and predicates, ordered Choice, transparent Group/Identifier, silent Rule = frame + splice, tag discipline, shape-insensitivity — on every abstract path of both siblings.",
      "Behaviour on the bundled grammars is claimed through the induction, not analysed per grammar; optimizer applicability on rewritten shapes is C02. Known finding F-A2 (shape-sensitivity of @ rules).", "§4 C08")

for _pid in ("C01", "C02", "C07", "C09", "C10", "C11", "C12", "C13", "C15", "C16", "C17", "C18"):
    NOT_APPLICABLE[_pid] = "check under construction in this session (engine not yet committed); will be claimed or declined with a technical reason"
NOT_APPLICABLE["C14"] = "every clause is an arithmetic relation between a text, an offset and computed line/column numbers; its truth is not in the shape of the code — deciding it needs an inductive numeric argument or exhaustive evaluation (other technique families). See DESIGN.md §4 C14."

check("C01", "template extraction from generate() (abstract walk of the generators) + " + OPS_TECH + "; symtable/ast checks of the assembled module skeleton; sibling parity tables",
      "Static: (a) the assembled module skeleton for five representative rule tables parses, resolves all names, orders import-time uses, and enumerates rules consistently; all f-string holes classified (hygiene); generated name families checked for collisions/injectivity. (b) both siblings of every operator, Rule (8 masks x 3 names) and parse_trivia (5 variants) meet the same contract K / specification on every abstract path; failure-recording parity; compiled-constant parity. (c) determinism: no nondeterministic/cross-call source in generators.",
      "Two implementations meeting the same obligations are identical only modulo the trusted primitives and completeness of the obligations; label texts of failures are not compared; known findings F-A2, F-N1, F-V3.", "§4 C01")
NOT_APPLICABLE.pop("C01", None)

ESC_TECH = "exception-escape analysis over the type-resolved call graph (mypy receiver types, virtual fan-out, address-taken roots), guard-idiom discharge + frozen triage table"
check("C07", ESC_TECH + "; path-sensitive enumeration of every template (no raise, definite assignment)",
      "Static: nothing but PestParsingError can escape Parser.parse through any Expression.parse override / ParserState / Stack; no generated-code path raises or reads an unassigned local for entry stacks of 0..2 entries; every runtime helper named by the templates is an escape entry with an empty allowed set; no nondeterministic source in the library.",
      "Termination and recursion depth are not decided. KeyError for unknown start rules / undefined references is outside the property's quantifier. SAFE triage entries are trusted while the site persists.", "§3.3, §4 C07")
check("C11", ESC_TECH + "; with_children arity rule; token-start enumeration",
      "Static: from Parser.from_grammar (scanner state functions, token parser, unescape, Expression constructors, optimizer and all default passes) only PestGrammarError subclasses can escape; from PestGrammarError.__str__ nothing can; every Token is constructed with a start inside the text.",
      "Termination of the scanner loop, MemoryError and RecursionError are not decided; the reported column being the 'right' one is numeric and not decided.", "§3.3, §4 C11")
check("C13", ESC_TECH + "; who-may-write and call-site enumeration for the furthest-failure record; " + OPS_TECH,
      "Static: furthest_pos only written by ParserState.__init__/fail from the defaulted pos; no fail() call site (20 enumerated, library + templates) passes pos; explicit rule_name values are rule names or None; labels never None on any abstract path; rule-frame / neg-pred / suppression bookkeeping restored on every operator exit; nothing can escape PestParsingError.__init__/__str__/detailed_message/expected/expected_labels/join_with_limit/error_context.",
      "That the line/column/source line shown are those of p is arithmetic (see C14) and not decided.", "§4 C13")
for _p in ("C07", "C11", "C13"):
    NOT_APPLICABLE.pop(_p, None)

check("C16", OPS_TECH + " (position-write / input-access justification per path); whole-program enumeration of input reads, template lines and pattern fragments against closed lists; type-driven or-default search",
      "Static: every advance of state.pos on every abstract path of every operator/template is justified by a match of exactly that literal / regex match / bounds check at the same position; every assignment to state.pos is a saved position, match end, find result or len(input); every read of the input string (17 sites + 20 template lines) is position-relative; no pattern fragment (36) anchors or looks behind; pos seeded from start_pos in both entry points; only SOI compares the position with an absolute offset.",
      "Sufficient as well as necessary modulo the semantics of str.startswith/find and regex match(s, pos). SOI-using grammars are outside the property.", "§3.7, §4 C16")
NOT_APPLICABLE.pop("C16", None)

check("C15", "whole-program mutation-site enumeration with mypy receiver classification (per-call vs long-lived), exemption table with machine-checked premises, allocation-site facts, API reachability over the resolved call graph",
      "Static: of 267 mutation sites none writes a module-/class-level object; the 10 API-reachable writes to long-lived Parser/Rule/Expression/Optimizer objects outside constructors each match a named single-field exemption whose premise is re-checked on every run; fresh ParserState and pair list per parse(); per-instance initialisation of every per-parse field; no mutable default argument; generated parse() keeps all mutable state in locals.",
      "Thread schedules are covered only through absence of shared mutable writes; atomicity of idempotent cache writes assumed. Flow- and context-insensitive over-approximation.", "§3.4, §4 C15")
NOT_APPLICABLE.pop("C15", None)

check("C10", "regular-language equivalence with shortest witnesses (regex constants read with re._parser vs exact-or-declined PEG->regular translation of meta.pest productions, product DFA over all code points); table and structure rules over the token parser's AST",
      "Static: 19 token-language comparisons are exact over U+0000..U+10FFFF (scanner constant == meta-grammar production, witness string on mismatch); keyword shadowing (26 inclusion queries); escape tables scanner == decoder == meta-grammar with pest's decoded values; every emitted token kind has a dispatch arm; structure table (token kind -> Expression class, argument provenance and order, precedence constants and loop shape, modifier symbols); structural facts of the recursive descent against term / postfix / slice / doc productions.",
      "Oracle: tests/grammars/meta.pest as shipped (digest recorded). Block comments and comment extents are not compared as languages. (d) is a hand-derived list of structural facts, not a full grammar extraction; cursor arithmetic of the decoder is C12's declined part.", "§4 C10")
check("C18", "def-use rules over PrattParser.parse_expr (table reads, dominance of the precedence comparison over token consumption, symbolic evaluation of the recursion bound per associativity)",
      "Static: each declared table is read; infix and postfix precedences are compared with min_prec before the operator is consumed; prefix and infix operands are parsed with a bound derived from the declared precedence; the recursion bound evaluates to prec+0 / prec+1 for right / left associativity under the `<` break test; loop exits and builder argument order; Stream.next/peek shape.",
      "Completeness of the rule set for every token stream is not proved.", "§4 C18")
for _p in ("C10", "C18"):
    NOT_APPLICABLE.pop(_p, None)

check("C12", "literal-table comparison as code-point interval sets; sibling pattern parity; pattern-fragment scan; linear-arithmetic facts of the class merger; symbolic linear cursor analysis of the escape decoder",
      "Static: ASCII_RULE_MAP/NEWLINE == pest's built-ins as exact code-point sets; Range and CIString compile the same pattern and flags for parse() and generate(), ranges case-sensitively; grammar-derived characters reach patterns only through re.escape; case variants enter a class only under a length-1 guard; the merger's set-preserving arithmetic facts; escape table values; on every returning path of the decoder the returned index is the last consumed position and the caller resumes one past it.",
      "The regex engine's Unicode tables and class parsing are trusted; case-insensitive matching of non-ASCII input is outside the property; the merger facts are necessary conditions (the sort/merge loop's full correctness is not proved).", "§4 C12")
check("C17", "literal precedence tables + pairing rule (loop test vs recursion bound) on the example climbers; rule-nesting/shape analysis of the grammar-encoded calculator; regular-language inclusion of RFC 8259 number/string in the JSON grammars' lexical rules",
      "Static, necessary conditions only: the three calculators induce the same operator order (add,sub < mul,div < pow < neg < fac) and associativity (+ - * / left, ^ right) — for the hand-written climber the effective associativity is derived from its code; RFC 8259 number and string are contained in both JSON grammars' lexical rules (witness on failure); value alternatives, SOI/EOI anchoring, ws set.",
      "Tree mirroring of json.loads, prefix rejection on concrete documents and evaluated values are run-time results and are NOT decided.", "§4 C17")
for _p in ("C12", "C17"):
    NOT_APPLICABLE.pop(_p, None)

check("C09", "component-coverage set comparison; pairing rules on the snapshot lists; symbolic conservation-law check (inductive invariant len(popped) == sum(item_count - remained_count)) on every path of every Stack method; who-may-write enumeration",
      "Static: checkpoint/ok/restore apply the matching operation to all four components; snapshot/restore/drop pairing on Stack and SnapshottingInt; on all 17 symbolic paths of the Stack methods the change of len(popped) equals the change of the snapshots' popped counts (this rule reports both defects of the original drop_snapshot/clear and is silent on the repaired code); nothing outside the owners touches items/popped/lengths/_checkpoints/_pos_history or calls the snapshot methods.",
      "NOT decided: that the delta encoding reproduces the snapshot contents for every history (needs induction over unbounded histories: model checking / proof). The conservation law is a necessary inductive invariant of it, not the whole equivalence.", "§4 C09")
NOT_APPLICABLE.pop("C09", None)

check("C02", "contradiction / unchecked-result rule on optional-returning pass helpers; sibling agreement between is_order_independent and build_optimized_pattern; registration and honouring of atomic_only; mutation-site purity of the passes; symbolic normalisation of every unroll() arm (five-constructor term algebra); " + OPS_TECH + " for the post-optimizer terminals",
      "Static, structural necessary conditions: O1 no ignored None result; O2 regex form only under the order-independence test whose ranks mirror the emission order; O3 trivia-sensitive passes registered atomic_only and the flag honoured; O4 passes mutate scratch objects only; O5 shared built-ins excluded from the in-place store; O6 SkipUntil/OptimizedChoice/RegexExpression meet the operator obligations on both siblings; O7 unroll arms == unrolled forms of the specification table; O8 inliner conditions; O9 SKIP fusion conditions.",
      "NOT decided: equivalence of the regex produced by build_optimized_pattern with the choice it replaces (beyond O2 and C12's fragment rules) and of SkipUntil's search with the loop it replaces in atomic context: these are equalities of languages of run-time constructed objects.", "§4 C02")
NOT_APPLICABLE.pop("C02", None)
