#!/usr/bin/env python3
"""tools/refresh_seeds_fast.py [--refactors] [id ...] — re-evaluate every kept seed (or refactoring) against the
current checks, in parallel, on scratch copies (SA_REPO=<copy>; /repo is not touched), and update meta.json.
The slower tools/refresh_seeds.py does the same by applying each patch to /repo itself."""
import json
import os
import shutil
import subprocess
import sys
import tempfile
from concurrent.futures import ThreadPoolExecutor
from pathlib import Path

VERIF = Path(__file__).resolve().parent.parent
REPO = Path("/repo")
PROPS = [f"C{i:02d}" for i in range(1, 19)]
refactors = "--refactors" in sys.argv
want = {a for a in sys.argv[1:] if not a.startswith("--")}
base = VERIF / ("refactors" if refactors else "seeded")


def copy_tree(dst: Path) -> None:
    for sub in ("src", "examples", "tests/grammars"):
        shutil.copytree(REPO / sub, dst / sub, ignore=shutil.ignore_patterns("__pycache__", "*.pyc"))
    shutil.copy(REPO / "pyproject.toml", dst / "pyproject.toml")


def one(args: tuple) -> tuple:
    tmp, prop = args
    env = dict(os.environ, SA_REPO=str(tmp), SA_NO_EVIDENCE="1")
    r = subprocess.run(["/venv/bin/python", "-m", "sa", prop, "--tier", "quick"], cwd=str(VERIF), env=env, capture_output=True, text=True, timeout=1800)
    o = r.stdout + r.stderr
    lines = [ln for ln in o.splitlines() if ln.startswith("  ") and not ln.startswith("      ")][:6]
    if r.returncode == 2:
        lines = [ln for ln in o.splitlines() if "ANALYSIS-ERROR" in ln][:2]
    return prop, r.returncode, lines


dirs = [d for d in sorted(base.iterdir()) if (d / "meta.json").exists() and (not want or d.name in want)]
with ThreadPoolExecutor(max_workers=16) as ex:
    for d in dirs:
        meta = d / "meta.json"
        m = json.loads(meta.read_text())
        if m.get("superseded"):
            continue
        tmp = Path(tempfile.mkdtemp(prefix="sa-refresh-"))
        try:
            copy_tree(tmp)
            p = subprocess.run(["git", "apply", "--unsafe-paths", f"--directory={tmp}", str(d / "patch.diff")], cwd="/", capture_output=True, text=True)
            if p.returncode:
                print(d.name, "PATCH DOES NOT APPLY")
                continue
            res = {prop: (rc, lines) for prop, rc, lines in ex.map(one, [(tmp, p_) for p_ in PROPS])}
        finally:
            shutil.rmtree(tmp, ignore_errors=True)
        if refactors:
            m["silent"] = sorted(p_ for p_, (rc, _) in res.items() if rc == 0)
            m["undecided"] = {p_: ls[:2] for p_, (rc, ls) in sorted(res.items()) if rc == 2}
            m["false_alarm"] = {p_: ls[:2] for p_, (rc, ls) in sorted(res.items()) if rc == 1}
            print(d.name, "silent", len(m["silent"]), "undecided", sorted(m["undecided"]), "FALSE ALARM" if m["false_alarm"] else "", sorted(m["false_alarm"]))
        else:
            m["caught_by"] = sorted(p_ for p_, (rc, _) in res.items() if rc == 1)
            m["analysis_error_in"] = sorted(p_ for p_, (rc, _) in res.items() if rc == 2)
            m["first_report_lines"] = {p_: ls[:2] for p_, (rc, ls) in sorted(res.items()) if rc == 1}
            own = m.get("breaks_property")
            print(d.name, m["caught_by"], m["analysis_error_in"], "" if own in m["caught_by"] else f"  <-- NOT reported by {own}")
        meta.write_text(json.dumps(m, indent=1) + "\n")
