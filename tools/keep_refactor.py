#!/usr/bin/env python3
"""tools/keep_refactor.py <src-dir> <refactor-id> <property> "<what it restructures>"

Store a confirmed behaviour-preserving restructuring under /verif/refactors/<id>/.  <src-dir> holds patch.diff,
demo.py, NOTES.md, confirm.json (confirmation against the commit it was written for), headcmp.txt (demo output on
a clean HEAD worktree == demo output on HEAD + patch) and evalH.json (every check's quick command with the patch
applied to /repo)."""
import json
import shutil
import sys
from pathlib import Path

src, rid, prop, what = Path(sys.argv[1]), sys.argv[2], sys.argv[3], sys.argv[4]
dst = Path(__file__).resolve().parent.parent / "refactors" / rid
dst.mkdir(parents=True, exist_ok=True)
for f in ("patch.diff", "demo.py", "NOTES.md"):
    if (src / f).exists():
        shutil.copy(src / f, dst / f)
ev = json.loads((src / "evalH.json").read_text()) if (src / "evalH.json").exists() else {}
conf = json.loads((src / "confirm.json").read_text()) if (src / "confirm.json").exists() else {}
confh = json.loads((src / "confirmH.json").read_text()) if (src / "confirmH.json").exists() else {}
head = (src / "headcmp.txt").read_text().strip() if (src / "headcmp.txt").exists() else ""
checks = ev.get("checks", {})
meta = {
    "id": rid,
    "restructures_code_anchored_by": prop,
    "what": what,
    "source": "independent sub-agent given only the property text and a scratch worktree of /repo; asked for a substantial restructuring that changes no observable behaviour",
    "confirmed_at_base": conf.get("confirm", conf),
    "confirmed_at_head": {"tests_with_patch": confh.get("tests"), "demo_output_clean_vs_patched": head},
    "what_was_run": [
        "scratch worktree at the base commit: demo.py exits 0 without and with the patch; full suite '678 passed, 1 error' with the patch",
        "scratch worktree at /repo HEAD: full suite with the patch; the demo's complete output (digests of all observations included) is byte-identical without and with the patch (the digests recorded in the demo are those of the base commit, so on a later HEAD it may exit 1 in both)",
        "git -C /repo apply patch.diff; every check's quick command; git -C /repo checkout -- .",
    ],
    "silent": sorted(p for p, r in checks.items() if r.get("rc") == 0),
    "undecided": {p: r.get("lines", [])[:2] for p, r in sorted(checks.items()) if r.get("rc") == 2},
    "false_alarm": {p: r.get("lines", [])[:2] for p, r in sorted(checks.items()) if r.get("rc") == 1},
}
(dst / "meta.json").write_text(json.dumps(meta, indent=1) + "\n")
print("kept", dst, "silent", len(meta["silent"]), "undecided", sorted(meta["undecided"]), "false alarm", sorted(meta["false_alarm"]))
