#!/usr/bin/env python3
"""Regenerate /verif/MANIFEST.json from the table below (run from /verif)."""
import json
import sys
from pathlib import Path

PY = "/venv/bin/python"
BASELINE = "cd /repo && /venv/bin/python -m pytest -ra -q -p no:cacheprovider --timeout=900 --continue-on-collection-errors"

CHECKS = {}
NOT_APPLICABLE = {}


def check(pid, technique, text, note, design):
    CHECKS[pid] = dict(technique=technique, text=text, note=note, design=design)


exec(Path(__file__).with_name("manifest_table.py").read_text())

manifest = {
    "version": 1,
    "setup_cmd": "mkdir -p /verif/evidence /verif/reports && /venv/bin/python -c \"import ast, symtable, re._parser\"",
    "hooks": {
        "guard": "JG_RP_PYTHON_PEST_VERIF",
        "enable": "no hooks: static analysis reads /repo's source files; nothing in /repo is instrumented",
        "baseline_off_cmd": BASELINE,
        "source_commits": [],
        "add_only": True,
    },
    "engines": [
        {"name": "sa", "path": "/verif/sa", "serves_properties": sorted(CHECKS), "kind_free_text": "repository-specific static analysers over ast / symtable / re._parser (+ mypy-as-library from the repository's own venv): template extraction, path-sensitive typestate, exception-escape, shared-state, regular-language and table checks"},
    ],
    "checks": [
        {
            "property_id": pid,
            "quick_cmd": f"{PY} -m sa {pid} --tier quick",
            "thorough_cmd": f"{PY} -m sa {pid} --tier thorough",
            "evidence_file": f"/verif/evidence/{pid}.json",
            "replay_cmd_template": f"{PY} -m sa {pid} --tier quick --replay {{path}}",
            "engine": "sa",
            "level_claimed": {"category": "other", "text": c["text"], "design_ref": c["design"]},
            "level_note": c["note"],
            "technique": c["technique"],
        }
        for pid, c in sorted(CHECKS.items())
    ],
    "notes": "Technique family: static analysis. Every check reads /repo's working tree on each run and reports a construct (file::function, path, call chain, table entry, or the model point a fragment fails on). python-pest is never imported and no generated parser is run; fragments of its source are evaluated from their syntax trees by the checker's own evaluator on finite model domains (DESIGN §13 says exactly what, and which structural rules remain as second opinions), and pattern constants the fragments compile are compiled by the regex engine the repository imports. Exit 0 = held (KNOWN-FINDING lines for recorded defects), 1 = VIOLATION, 2 = ANALYSIS-ERROR (undecided: an unsupported construct, a vanished anchor, a may-raise site no model reaches). Known findings: /verif/known_findings.json. Seeded changes: /verif/seeded (breaking), /verif/refactors (behaviour-preserving); both are run by every thorough tier.",
    "not_applicable": [{"property_id": k, "reason": v} for k, v in sorted(NOT_APPLICABLE.items())],
}
Path("MANIFEST.json").write_text(json.dumps(manifest, indent=1) + "\n")
print("checks:", sorted(CHECKS), "n/a:", sorted(NOT_APPLICABLE))
