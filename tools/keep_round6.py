import json, subprocess, shutil
from pathlib import Path
T = {
 "C01/a": ("choice-terminal-alternative-without-checkpoint", "generated modes; PEEK[a..b] or POP_ALL written directly as an alternative of a choice, failing after a partial match (slice of >= 2 entries whose first matches / non-empty stack), followed by another alternative"),
 "C01/b": ("generate-rule-source-cache-keyed-by-printed-rule", "one process generates two grammars with a same-named rule whose printed text is equal but whose tree differs (silent rule inlined without a group; tab vs backslash-t literal): the second module silently holds the first rule's code"),
 "C02/a": ("skipuntil-shrinking-search-window", "optimized modes; a loop rewritten by the skip pass with two literal terminators where a later-listed one overlaps an earlier-listed one (\"\\n\" | \"\\r\\n\", \"b\" | \"ab\") and an input with that overlap"),
 "C02/b": ("squash-continues-from-shared-copy", "pipeline running squash_choice, inline silent, squash_choice again (e.g. the default passes twice); a silent literal-choice rule that leads another choice and is also used elsewhere: OptimizedChoice.copy() shares its list"),
 "C03/a": ("second-squash-pass-extends-inlined-choice", "two cooperating edits (a second squash pass after inline silent + a fast path through OptimizedChoice.copy()); optimized modes; a silent literal-choice rule used as first alternative of another literal choice and once more elsewhere"),
 "C03/b": ("sequence-and-optional-write-callers-list", "two cooperating edits, each harmless alone; interpreter modes; an optional group over a sequence in which a visible rule matches and a later item fails while the parse goes on"),
 "C04/a": ("rule-failure-memo-ignores-atomicity", "interpreter modes; a pure non-atomic rule fails at a position under one atomicity and is retried at the same position under the other, with trivia inside the rule"),
 "C04/b": ("skip-rule-for-both-trivia-kinds-shows-helper-pairs", "optimized modes; WHITESPACE and COMMENT both defined, exactly one of them silent, the silent one's body referencing a normal or @ rule: stray pairs wherever trivia was skipped"),
 "C05/a": ("optional-terminal-operand-without-checkpoint", "generated modes; ?, {,n} or {m,n} applied directly to POP_ALL / PEEK[a..b], the operation failing (partially for the slice)"),
 "C05/b": ("checkpoint-skips-snapshot-of-empty-stack", "a history: stack non-empty, attempt snapshotted, stack emptied inside it, another checkpoint taken on the empty stack, then ok / restore: the inner one consumes the outer snapshot"),
 "C06/a": ("sequence-and-optional-share-parent-list", "two cooperating edits; interpreter modes; an optional over a sequence starting with a non-silent rule that then fails: overlapping children"),
 "C06/b": ("choice-gen-rule-alternative-writes-parent-list", "generated modes; a choice inside an @ rule where an earlier alternative is a normal rule that matches a $ or ! sub-rule and then fails, and a later alternative succeeds"),
 "C07/a": ("parse-trivia-recurses-per-comment", "interpreter modes; WHITESPACE and COMMENT both defined (no SKIP rule); a flat input with about a thousand consecutive comments: RecursionError"),
 "C07/b": ("stack-snapshot-elided-and-drop-keeps-popped", "two cooperating edits in stack.py; a checkpoint on an empty stack, a push, a POP / DROP inside an inner checkpoint that succeeds, then an outer failure: AssertionError escapes parse()"),
 "C08/a": ("sequence-writes-caller-list-choice-shares-scratch", "two cooperating edits; interpreter modes; ((e ~ NEVER) | e) at a site where e produces pairs: every rule matched by e appears twice"),
 "C08/b": ("drop-snapshot-handover-boundary", "lists grammar; two nested rewrites at the DROP site (an inner alternative-doubling inside an outer failing-first-alternative) and an input with a nested list: the enclosing snapshot taken at the same height no longer gets the popped item back"),
 "C09/a": ("checkpoint-fast-path-empty-user-stack", "history: checkpoint on a non-empty stack, pop to empty, nested checkpoint on the empty stack, ok / restore of the nested one consumes the outer snapshot (push, cp, pop, cp, restore)"),
 "C09/b": ("stack-coalesces-snapshots-by-height", "history: snapshot, k pops and k pushes back to the same height, second snapshot, restore of the second returns the outer snapshot's contents (push, snap, pop, push, snap, restore)"),
 "C10/a": ("hex-digits-through-int", "a \\x or \\u{} escape in a string literal with white space, a sign, 0x, an underscore or a non-ASCII digit in a digit position, at the right length: invalid grammars accepted, \"\\x-1\" raises ValueError"),
 "C10/b": ("pending-tag-travels-to-next-taggable-node", "#t = on a string, case-insensitive string or built-in without a prefix operator, followed (in the same sequence, a later alternative, a nested group or a later rule) by a node that takes a tag before any other explicit tag"),
 "C11/a": ("char-literal-shape-only-and-unescape-fast-path", "two cooperating edits; a malformed but escape-shaped character literal in a range end point ('\\q'..'z', '\\xzz', '\\u{}', '\\u{-41}'): KeyError / ValueError escape from_grammar"),
 "C11/b": ("recursion-net-narrowed-to-parse", "about a thousand stacked postfix operators (built by loops, so the scanner and parser do not recurse) with an optimizer: the optimizer's recursive tree maps overflow outside the try, RecursionError escapes"),
 "C12/a": ("ci-string-unescaped-twice", "a ^\"...\" literal containing an escaped backslash: the second unescape pass re-reads it (^\"\\\\n\" matches U+000A; ^\"\\\\\" is rejected)"),
 "C12/b": ("squashed-choices-memoised-by-rendering", "optimized modes; two choices whose renderings collide because String.__str__ does not escape backslashes (\"\\n\" vs \"\\\\n\"), the colliding one optimized earlier in the same grammar or process"),
 "C13/a": ("fail-explicit-none-tests-empty-rule-name", "generated modes; a negative predicate over a non-identifier (!\"x\", !(\"let\"|\"if\")) failing at the furthest position: the emitted code passes rule_name='' and the label is filed under the empty name"),
 "C13/b": ("error-context-appends-to-cached-lines", "two cooperating edits (lru_cache on the line split + append of an empty line); input empty or ending in a line break, failure at end of input, and an earlier rendering for an equal text: 2:1, then 3:1, then 4:1"),
 "C14/a": ("cached-split-lines-handed-to-caller", "two cooperating edits and a history: lines() on a span touching every line returns the cached list unsliced; the caller edits it; any utility called again on an equal text is then wrong"),
 "C14/b": ("error-context-clips-long-lines", "an offending line longer than 96 characters and the error past column 49: the LINE:COL header shows the column inside the clipped window"),
 "C15/a": ("identifier-remembers-resolved-rule", "interpreter; two Parser objects built through Parser(rules) from shared Rule objects with a different rule under the same name, the other parser used first"),
 "C15/b": ("optimized-pattern-memo-keyed-by-set-of-alternatives", "optimized modes; two choices in different grammars with the same set of alternatives in a different order where one literal is a prefix of another; the other ordering's pattern built first (first use decides)"),
 "C16/a": ("skipuntil-terminator-table-per-input", "optimized interpreter; the same string object parsed first from a later start position and then from an earlier one with a terminator in between"),
 "C16/b": ("sentinel-failure-position-pinned-to-zero", "start_pos = k > 0 and a failing parse in which nothing called fail() (only ANY, EOI, Unicode classes or a squashed literal choice failed): the failure is reported at 0, before the start position"),
 "C17/a": ("pair-inner-and-pairs-stream-cached", "two cooperating caches; a second walk of the same parse tree through stream() (Pratt after precedence climbing, or the same walker under a second variable environment): the second walk finds a consumed stream"),
 "C17/b": ("json-string-excludes-control-category", "a raw DEL or C1 control character (U+007F - U+009F) inside a JSON string: RFC 8259 allows them unescaped, the CONTROL category excludes them"),
 "C18/a": ("prefix-run-gathered-in-a-loop", "two adjacent prefix operators with different precedences, the outer one looser, then a postfix or infix operator whose precedence falls between them"),
 "C18/b": ("stream-caches-head-pair", "a history: a first pass, then stream.pos = mark (or the shared list extended after the end was reached), then a second parse: peek() / next() serve the stale pair"),
}
R = {
 "C01/r": ("codegen-helpers-if-else-match-regex", "Builder.if_else() / match_regex() helpers, merged Peek / Pop emitters (keyword-only flag, list of lines assembled with insert), generate_parse_trivia split into guard / attempt / loop"),
 "C02/r": ("optimizer-run-step-partial-for-else", "Optimizer.optimize split into _run_step / _is_candidate / _with_expression, functools.partial instead of lambdas, for/else fixed point, skip pass helpers, unroll by isinstance dispatch, SkipUntil with min(default=)"),
 "C03/r": ("unrolled-repeat-base-class-hook", "the five unrolled repeat operators derive from an _Unrolled base with an unroll() hook (raise NotImplementedError in the base); the unroll pass calls the hook"),
 "C04/r": ("unrolled-repeat-base-and-lazy-any-trivia-loop", "_UnrolledRepeat base with _unroll() / _bounds() hooks; parse_trivia's loop driven by a lazy any(...) over the defined trivia rules"),
 "C05/r": ("stack-terminal-match-helpers", "Peek / Pop / PeekSlice / PeekAll / PopAll share four helpers for parse and generate; PopAll.parse matches first and then clears"),
 "C06/r": ("rule-context-properties-and-new-pair", "Rule._context() / _is_atomic / _is_always_visible properties, _new_pair(), a static _generate_transparent_return(); generate_parse_trivia with guard clauses; Pair.dumps early returns"),
 "C07/r": ("state-history-frames-and-rule-is-atomic", "_pos_history and _tag_history merged into one _history of frames; parse_trivia as for/else; fail() flattened; Rule.is_atomic property, one atomic_checkpoint block shared by both branches"),
 "C08/r": ("optimizer-applies-to-run-match-squash", "Optimizer.optimize split into _applies_to / _run / _squashed_whitespace; nested match in skip flattened; isinstance chain in squash becomes a match statement"),
 "C09/r": ("stack-record-removed-int-compare-helpers", "Stack.pop / clear share _record_removed, restore rewinds through popped.pop(); SnapshottingInt operators through _set / _compare with the operator module; parse_trivia's attempts through _parse_implicit"),
 "C10/r": ("scanner-expect-and-operator-tables", "scanner helpers expect() / accept_parenthesized() / accept_quoted() / ..., operator ladders as table look-ups; no regular expression changed"),
 "C11/r": ("scanner-operator-tables-one-loop", "infix / prefix / postfix operators dispatched through three tables, accept_expression as one loop, shared accept_comment_text, expect() at rule level"),
 "C12/r": ("string-body-scanner-and-unescape-table", "accept_string / accept_ci_string merged into accept_string_body(kind); one-character escapes as a table, find-and-slice decoding, _decode_hex_byte extracted, hex digits looked up in a table"),
 "C13/r": ("describe-helper-bisect-context-fail-split", "expected() / expected_labels() share _describe(); error_context with accumulate + bisect_right; detailed_message from rows; fail() split into _records_failures / _new_furthest; NegativePredicate._unexpected"),
 "C14/r": ("lines-class-with-bisect", "the line logic of line_col / line_of / Span.lines moves into a per-call _Lines class with bisect_right over cumulative ends; nothing cached"),
 "C15/r": ("state-checkpoint-tuples-for-else-trivia", "_pos_history and _tag_history merged into one list of (pos, tags) called _checkpoints; parse_trivia as one for/else loop; fail() with early return and setdefault"),
 "C16/r": ("state-history-attempt-helper", "_pos_history and _tag_history merged into _history; parse_trivia's attempts through _attempt() in a short-circuit while; fail() as early return plus setdefault"),
 "C17/r": ("pattern-parts-bucket-and-pratt-binding", "build_optimized_pattern / _optimize_char_class around a _PatternParts bucket class and helpers; PrattParser.parse_expr with a _binding() helper and a walrus loop (rebased onto 104e149)"),
 "C18/r": ("pratt-take-operator-named-tuple", "the operator-classification half of the Pratt loop moves into _take_operator returning an _Operator named tuple; walrus while (rebased onto 104e149)"),
}
out = Path('/tmp/r6out')
for key,(slug,needs) in T.items():
    c,w = key.split('/')
    d = out/c/w
    shutil.copy(d/'eval3.json', d/'eval.json.final')
    first = json.loads((d/'eval.json').read_text()) if (d/'eval.json').exists() else {}
    ev = json.loads((d/'eval3.json').read_text()); ev['confirm']=json.loads((d/'confirm.json').read_text())
    (d/'eval.json').write_text(json.dumps(ev, indent=1))
    sid=f"R6-{c}-1{w}-{slug}"
    subprocess.run(['/venv/bin/python','/verif/tools/keep_seed.py',str(d),sid,c,needs],check=True,capture_output=True)
    mf=Path('/verif/seeded')/sid/'meta.json'; m=json.loads(mf.read_text())
    m['round']=6
    m['source']="independent sub-agent given only the property text and a scratch worktree of /repo (two breaking changes in different files, at least one needing two cooperating edits or a multi-step history, and one refactoring per agent)"
    m['first_pass']={'caught_by': first.get('fired'), 'undecided': first.get('analysis_error'), 'note': "first pass = the checks as they stood when the change arrived (for pieces evaluated between the PRATT family extension and the repair 104e149 in /repo, C17 / C18 fired on the unmodified tree's own defect: those two entries are not counted)"}
    m['what_was_run']=["scratch worktree of /repo HEAD: demo.py exits 0 on the clean tree; git apply patch.diff; full suite still '678 passed, 1 error'; demo.py exits non-zero with the patch (tools/seed_eval.py --confirm)", "every check's quick command on a scratch copy of /repo with the patch applied (tools/eval_many.py; SA_REPO=<copy>)"]
    mf.write_text(json.dumps(m,indent=1)+"\n")
    print(sid, m['caught_by'])
for key,(slug,what) in R.items():
    c,w = key.split('/')
    d = out/c/w
    first = json.loads((d/'eval.json').read_text()) if (d/'eval.json').exists() else {}
    ev = json.loads((d/'eval3.json').read_text())
    (d/'evalH.json').write_text(json.dumps(ev, indent=1))
    if not (d/'confirmH.json').exists(): shutil.copy(d/'confirm.json', d/'confirmH.json')
    rid=f"R6-{c}-2-{slug}"
    subprocess.run(['/venv/bin/python','/verif/tools/keep_refactor.py',str(d),rid,c,what],check=True,capture_output=True)
    mf=Path('/verif/refactors')/rid/'meta.json'; m=json.loads(mf.read_text())
    m['round']=6
    m['first_pass']={'false_alarm': first.get('fired'), 'undecided': first.get('analysis_error'), 'note': "the checks as they stood when the refactoring arrived (C17 / C18 entries of pieces evaluated before the repair 104e149 are the unmodified tree's own defect and are not counted)"}
    if (d/'patch.orig.diff').exists():
        shutil.copy(d/'patch.orig.diff', Path('/verif/refactors')/rid/'patch.before-104e149.diff')
        m['rebased']="written against 1459d7c; rebased by hand onto 104e149 (parse_expr's default floor repaired: min_prec may be None); re-confirmed at HEAD (suite 678 passed, demo output identical)"
    mf.write_text(json.dumps(m,indent=1)+"\n")
    print(rid, 'silent', len(m.get('silent',[])), 'undecided', m.get('undecided'), 'false', m.get('false_alarm'))
