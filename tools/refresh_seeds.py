#!/usr/bin/env python3
"""tools/refresh_seeds.py [seed-id ...] — re-evaluate kept seeds against the current checks and update meta.json
(caught_by, analysis_error_in, first_report_lines).  Superseded seeds are skipped.  Applies each patch to /repo,
runs every quick command, restores /repo (via tools/seed_eval.py)."""
import json
import subprocess
import sys
from pathlib import Path

VERIF = Path(__file__).resolve().parent.parent
want = set(sys.argv[1:])
for d in sorted((VERIF / "seeded").iterdir()):
    meta = d / "meta.json"
    if not meta.exists() or (want and d.name not in want):
        continue
    m = json.loads(meta.read_text())
    if m.get("superseded"):
        continue
    p = subprocess.run(["/venv/bin/python", str(VERIF / "tools" / "seed_eval.py"), str(d)], capture_output=True, text=True, timeout=1800)
    ev_path = d / "eval.json"
    if not ev_path.exists():
        print(d.name, "EVAL FAILED", p.stdout[-200:])
        continue
    ev = json.loads(ev_path.read_text())
    ev_path.unlink()
    m["caught_by"] = ev.get("fired", [])
    m["analysis_error_in"] = ev.get("analysis_error", [])
    m["first_report_lines"] = {k: r["lines"][:2] for k, r in ev.get("checks", {}).items() if r.get("rc") == 1}
    meta.write_text(json.dumps(m, indent=1) + "\n")
    print(d.name, m["caught_by"], m["analysis_error_in"])
