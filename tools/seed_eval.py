#!/usr/bin/env python3
"""Evaluate one seeded change against the checks.

    tools/seed_eval.py <seed-dir> [--confirm] [--refactor] [--props C01,C03]

--refactor: the change is meant to preserve behaviour (demo passes with and without it).

<seed-dir> holds patch.diff and demo.py.  With --confirm the change is first confirmed
in a throw-away worktree (demo passes clean, patch applies, suite still 678 passed,
demo fails with the patch).  Then the patch is applied to /repo, every claimed check's
quick command is run, and /repo is restored (git checkout -- .) straight afterwards.
Prints one line per check and a JSON summary; nothing is ever committed to /repo.
"""

from __future__ import annotations

import json
import os
import subprocess
import sys
import tempfile
from concurrent.futures import ThreadPoolExecutor
from pathlib import Path

REPO = "/repo"
VERIF = Path(__file__).resolve().parent.parent
PY = "/venv/bin/python"


def sh(cmd: str, cwd: str | None = None, env: dict | None = None, timeout: int = 900) -> tuple[int, str]:
    e = dict(os.environ)
    e.update(env or {})
    p = subprocess.run(cmd, shell=True, cwd=cwd, env=e, capture_output=True, text=True, timeout=timeout)
    return p.returncode, p.stdout + p.stderr


def confirm(seed: Path, refactor: bool = False, base: str = "HEAD") -> dict:
    wt = tempfile.mkdtemp(prefix="seedwt-")
    os.rmdir(wt)
    out: dict = {}
    try:
        rc, o = sh(f"git -C {REPO} worktree add -q --detach {wt} {base}")
        out["base"] = base
        if rc:
            return {"error": o}
        env = {"PYTHONPATH": f"{wt}/src:{wt}", "SEED_CHECKOUT": wt}
        # run the demo from inside the scratch worktree: demos that locate the sources relative to their own
        # file must find this worktree's, not those of the directory the seed happens to be stored in
        os.makedirs(f"{wt}/_seed/x", exist_ok=True)
        sh(f"cp {seed}/demo.py {wt}/_seed/x/demo.py")
        demo = f"{wt}/_seed/x/demo.py"
        rc, o = sh(f"{PY} {demo}", cwd=wt, env=env)
        out["demo_clean_rc"] = rc
        rc, o = sh(f"git apply {seed}/patch.diff", cwd=wt)
        out["apply_rc"] = rc
        if rc:
            out["apply_out"] = o[-400:]
            return out
        rc, o = sh(f"{PY} -m pytest -q -p no:cacheprovider --timeout=900 --continue-on-collection-errors", cwd=wt, env=env)
        tail = o.strip().splitlines()[-1] if o.strip() else ""
        out["tests"] = tail
        out["tests_ok"] = "678 passed, 1 error" in tail
        sh("git checkout -- examples", cwd=wt)
        sh(f"git apply {seed}/patch.diff", cwd=wt)  # in case the patch touches examples
        rc, o = sh(f"{PY} {demo}", cwd=wt, env=env)
        out["demo_patched_rc"] = rc
        out["demo_patched_tail"] = o.strip()[-300:]
    finally:
        sh(f"git -C {REPO} worktree remove --force {wt}")
        sh(f"git -C {REPO} worktree prune")
    if refactor:
        # a behaviour-preserving change: its demo must pass without AND with the patch
        out["confirmed"] = out.get("demo_clean_rc") == 0 and out.get("apply_rc") == 0 and bool(out.get("tests_ok")) and out.get("demo_patched_rc", 1) == 0
    else:
        out["confirmed"] = out.get("demo_clean_rc") == 0 and out.get("apply_rc") == 0 and out.get("tests_ok") and out.get("demo_patched_rc", 0) != 0
    return out


def run_checks(seed: Path, props: list[str]) -> dict:
    rc, o = sh("git status --porcelain", cwd=REPO)
    if o.strip():
        return {"error": "/repo is not clean: " + o[:200]}
    results: dict = {}
    rc, o = sh(f"git apply {seed}/patch.diff", cwd=REPO)
    if rc:
        return {"error": "patch does not apply to /repo: " + o[-300:]}
    try:
        def one(p: str) -> tuple[str, int, list[str]]:
            rc, o = sh(f"{PY} -m sa {p} --tier quick", cwd=str(VERIF), env={"SA_NO_EVIDENCE": "1"})
            lines = [ln for ln in o.splitlines() if ln.startswith("  ") and not ln.startswith("      ")][:6]
            if rc == 2:
                lines = [ln for ln in o.splitlines() if "ANALYSIS-ERROR" in ln][:2]
            return p, rc, lines

        # the first run builds the mypy table for the patched tree; then run the rest in parallel
        first = one(props[0])
        results[first[0]] = {"rc": first[1], "lines": first[2]}
        with ThreadPoolExecutor(max_workers=8) as ex:
            for p, rc, lines in ex.map(one, props[1:]):
                results[p] = {"rc": rc, "lines": lines}
    finally:
        sh("git checkout -- .", cwd=REPO)
        sh("git clean -fdq src examples", cwd=REPO)
    return results


def main() -> int:
    args = sys.argv[1:]
    seed = Path(args[0]).resolve()
    do_confirm = "--confirm" in args
    props = None
    for a in args:
        if a.startswith("--props"):
            props = a.split("=", 1)[1].split(",")
    manifest = json.loads((VERIF / "MANIFEST.json").read_text())
    props = props or [c["property_id"] for c in manifest["checks"]]
    summary: dict = {"seed": str(seed)}
    if do_confirm:
        base = next((a.split("=", 1)[1] for a in args if a.startswith("--base=")), "HEAD")
        summary["confirm"] = confirm(seed, refactor="--refactor" in args, base=base)
        print("confirm:", json.dumps(summary["confirm"])[:600])
        (seed / "confirm.json").write_text(json.dumps(summary["confirm"], indent=1))
        if not summary["confirm"].get("confirmed"):
            print("NOT CONFIRMED")
            print(json.dumps(summary))
            return 3
        if "--confirm-only" in args:
            return 0
    elif (seed / "confirm.json").exists():
        summary["confirm"] = json.loads((seed / "confirm.json").read_text())
    res = run_checks(seed, props)
    summary["checks"] = res
    if "error" in res:
        print("ERROR", res["error"])
        return 4
    fired = [p for p, r in res.items() if r["rc"] == 1]
    broken = [p for p, r in res.items() if r["rc"] == 2]
    for p in sorted(res):
        r = res[p]
        tag = {0: "silent", 1: "VIOLATION", 2: "ANALYSIS-ERROR"}.get(r["rc"], f"rc={r['rc']}")
        print(f"{p}: {tag}")
        for ln in r["lines"][:3]:
            print("   ", ln.strip()[:220])
    summary["fired"] = fired
    summary["analysis_error"] = broken
    print("SUMMARY fired=", fired, "analysis_error=", broken)
    (seed / "eval.json").write_text(json.dumps(summary, indent=1))
    return 0


if __name__ == "__main__":
    sys.exit(main())
