#!/usr/bin/env python3
"""tools/keep_seed.py <src-seed-dir> <seed-id> <property> "<needs>"  — store a confirmed seeded change under /verif/seeded/<seed-id>/."""
import json
import shutil
import sys
from pathlib import Path

src, sid, prop, needs = Path(sys.argv[1]), sys.argv[2], sys.argv[3], sys.argv[4]
dst = Path(__file__).resolve().parent.parent / "seeded" / sid
dst.mkdir(parents=True, exist_ok=True)
for f in ("patch.diff", "demo.py", "NOTES.md"):
    if (src / f).exists():
        shutil.copy(src / f, dst / f)
ev = json.loads((src / "eval.json").read_text()) if (src / "eval.json").exists() else {}
meta = {
    "id": sid,
    "breaks_property": prop,
    "source": "independent sub-agent given only the property text and a scratch worktree of /repo",
    "needs_to_manifest": needs,
    "confirmed": ev.get("confirm", {}),
    "what_was_run": [
        "scratch worktree: demo.py exits 0 on the clean tree; git apply patch.diff; full suite still '678 passed, 1 error'; demo.py exits non-zero with the patch",
        "git -C /repo apply patch.diff; every claimed check's quick command; git -C /repo checkout -- .",
    ],
    "caught_by": ev.get("fired", []),
    "analysis_error_in": ev.get("analysis_error", []),
    "first_report_lines": {p: r["lines"][:2] for p, r in ev.get("checks", {}).items() if r.get("rc") == 1},
}
(dst / "meta.json").write_text(json.dumps(meta, indent=1) + "\n")
print("kept", dst, "caught_by", meta["caught_by"])
