#!/usr/bin/env python3
"""tools/eval_dir.py <dir-with-patch.diff> [--out eval.json] — every check's quick command on a scratch copy of /repo
with the patch applied (SA_REPO=<copy>; /repo itself is not touched).  Writes <dir>/eval.json in the format of
tools/seed_eval.py."""
import json
import os
import shutil
import subprocess
import sys
import tempfile
from concurrent.futures import ThreadPoolExecutor
from pathlib import Path

VERIF = Path(__file__).resolve().parent.parent
REPO = Path("/repo")
PROPS = [f"C{i:02d}" for i in range(1, 19)]
d = Path(sys.argv[1]).resolve()
tmp = Path(tempfile.mkdtemp(prefix="sa-evaldir-"))
try:
    for sub in ("src", "examples", "tests/grammars"):
        shutil.copytree(REPO / sub, tmp / sub, ignore=shutil.ignore_patterns("__pycache__", "*.pyc"))
    shutil.copy(REPO / "pyproject.toml", tmp / "pyproject.toml")
    p = subprocess.run(["git", "apply", "--unsafe-paths", f"--directory={tmp}", str(d / "patch.diff")], cwd="/", capture_output=True, text=True)
    if p.returncode:
        print("PATCH DOES NOT APPLY", p.stderr[-300:])
        sys.exit(3)

    def one(prop: str) -> tuple:
        env = dict(os.environ, SA_REPO=str(tmp), SA_NO_EVIDENCE="1")
        r = subprocess.run(["/venv/bin/python", "-m", "sa", prop, "--tier", "quick"], cwd=str(VERIF), env=env, capture_output=True, text=True, timeout=1800)
        o = r.stdout + r.stderr
        lines = [ln for ln in o.splitlines() if ln.startswith("  ") and not ln.startswith("      ")][:6]
        if r.returncode == 2:
            lines = [ln for ln in o.splitlines() if "ANALYSIS-ERROR" in ln][:3]
        return prop, r.returncode, lines

    with ThreadPoolExecutor(max_workers=9) as ex:
        res = {prop: {"rc": rc, "lines": lines} for prop, rc, lines in ex.map(one, PROPS)}
finally:
    shutil.rmtree(tmp, ignore_errors=True)
out = {"checks": res, "fired": sorted(p_ for p_, r in res.items() if r["rc"] == 1), "analysis_error": sorted(p_ for p_, r in res.items() if r["rc"] == 2)}
conf = d / "confirm.json"
if conf.exists():
    out["confirm"] = json.loads(conf.read_text())
(d / "eval.json").write_text(json.dumps(out, indent=1) + "\n")
print("SUMMARY fired=", out["fired"], "analysis_error=", out["analysis_error"])
