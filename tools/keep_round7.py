import json, subprocess, shutil
from pathlib import Path
X = {
 "C01": ("skipuntil-template-offset-zero-is-falsy", "large restructuring of the code templates (Builder.suite(), snippets module, Constant tuples) with one slip: SkipUntil.generate emits `state.pos = idx or len(state.input)`; optimized generated mode, a skip starting at input offset 0 on an input that begins with a terminator"),
 "C02": ("compiled-pattern-table-keyed-without-quantifier", "pattern builder split into _PatternParts / _CharClass, absorber table, module-level _COMPILED table keyed by the choices only: the repeating SKIP form and the squashed WHITESPACE form collide; optimized interpreter, silent choice WHITESPACE referenced explicitly, first use decides"),
 "C03": ("charset-span-merge-drops-max", "is_order_independent / pattern builder restructured (_Group IntEnum, _CharSet class, singledispatch squash); slip: merged span end is `hi` instead of max(): a range strictly inside another cuts the outer one back; optimized modes"),
 "C04": ("one-trivia-loop-attempt-writes-callers-list", "the trivia loop lives once in ParserState.skip_implicit (generated parse_trivia is one call), attempt() helper, merged histories; slip: attempt parses straight into the caller's list: generated modes, a silent trivia rule whose body reaches a $ / ! sub-rule that matches before a later element fails"),
 "C05": ("snapshot-records-handover-takes-first-entries", "Stack's popped / lengths become _Snapshot(size, floor, removed) records, state histories merged; slip: drop_snapshot hands the enclosing snapshot removed[:inherited] instead of the last entries: a push inside an abandonable attempt, a nested success popping through it, then the outer attempt fails"),
 "C06": ("no-scratch-lists-repeat-keeps-trivia-pairs", "the interpreter's per-construct scratch lists removed (constructs write into the caller's list, Sequence truncates to a mark); slip: Repeat.parse gives back trivia before a failed iteration in position only: trivia that produces pairs, after the last iteration, interpreter modes"),
 "C07": ("join-with-limit-search-without-default", "expected() / expected_labels() share _describe(), join_with_limit split into helpers with a next(...) search; slip: no default when the \", \"-join fits but the real join with \" or \" does not: names joined exactly 79 / 80 (39 / 40) characters long: StopIteration escapes parse()"),
 "C08": ("builder-attempt-helper-forgets-buffer-clear", "code templates moved into Builder helpers (new_buffer, attempt, lookahead, test); slip: attempt() does not clear the buffer on roll-back: Choice shares one buffer across alternatives: generated modes, ((e ~ NEVER) | e) where e produces pairs"),
 "C09": ("snapshot-objects-handover-slice-from-the-front", "Stack keeps _Snapshot objects with their own removed lists; slip: drop_snapshot hands over removed[:handed_over] (the first entries): push, snapshot, push, snapshot, clear, drop, restore (21 of 335 922 histories up to length 7)"),
 "C10": ("doc-comment-text-by-dot-star-keeps-cr", "scanner punctuation / operator / keyword tables, expect(), merged string and doc-comment functions; slip: doc text read with `.*`: a //! or /// line ending in CRLF keeps the \\r in Rule.doc / Parser.doc"),
 "C11": ("nesting-guard-context-manager-covers-parse-only", "TokenCursor base class, InfixOperator table, match-based parse_expression, nesting_guard() context manager; slip: the guard covers only parse(): ~990 stacked postfix operators overflow in the optimizer outside it, RecursionError escapes from_grammar"),
 "C12": ("span-empty-test-drops-single-character-ranges", "_Alternatives / _CharClass / _Span classes, singledispatch squash; slip: _Span.empty is first >= last: every 'x'..'x' range is dropped from a squashed class unless another alternative covers the character; optimized modes"),
 "C13": ("furthest-failure-class-is-none-test-keeps-empty-name", "furthest_* slots and fail()'s bookkeeping move into a FurthestFailure class (properties keep the old names), _attempt() helper; slip: `rule_name or top` became an `is None` test while emitted code passes rule_name='': generated modes, a negative predicate over a non-reference failing furthest"),
 "C14": ("line-table-terminated-by-rstrip", "new lines.py (Line records, LineTable with bisect), utilities rebuilt on it; slip: Line.terminated compares with rstrip() (any trailing blank): a text not ending in a line break whose last line ends in a blank, offset len(text): (2, 1) instead of (1, 3)"),
 "C15": ("identifier-rule-accessor-stores-resolved-rule", "state histories merged, trivia loop split, Identifier.rule(state) accessor, NegativePredicate helpers; slip: the accessor stores the resolved rule on the node: parsers built from shared Rule objects, interpreter, the other parser used first"),
 "C16": ("match-entries-fail-before-rewind-explicit-zero", "stack terminals' matching moves into ParserState.match_top / match_entries (interpreter and emitted code become one-line calls); slip: fail(entry, pos=start) before the rewind, and fail() treats pos=0 as absent: a multi-entry match at absolute offset 0 over entries pushed by PUSH_LITERAL, first matching, later failing"),
 "C17": ("pratt-head-applies-prefix-before-tail", "parse_expr split into _parse_head / _parse_tail / _advance with a _Fixity enum, calculators' matches become dispatch tables; slip: the prefix operator is applied before the tighter-binding tail is folded: -3! builds (-3)! in the Pratt calculator only"),
 "C18": ("prefix-run-take-while-loses-intermediate-floors", "Stream.take_while, parse_expr without one recursion per prefix operator, _parse_tail; slip: the outer prefix operators' precedences are never used as floors: two chained prefix operators, the outer looser, then an operator whose precedence lies between"),
}
R = {
 "C01": ("history-tuples-operator-factories-atomicity-enum", "_history of (pos, tags), parse_trivia as for/else, SnapshottingInt's 17 operator methods built by three factories over the operator module, Rule.atomicity property over an Atomicity enum"),
 "C02": ("unrolled-repeat-base-skip-functions-targets", "UnrolledRepeat / _CountedRepeat base classes (the unroll pass calls expr.unrolled()), skip pass as two plain functions, Optimizer._targets generator, functools.partial"),
 "C03": ("marks-attempt-unrolled-base", "_marks list of _Mark NamedTuples, _attempt() helper, Unrolled / _Counted base classes, one-line unroll pass"),
 "C04": ("counted-repeat-base-rule-scope-record", "CountedRepeat base, Rule.scope() returning a Scope(atomic, hide_pairs) NamedTuple with statements(), ALWAYS_VISIBLE / IMPLICIT_RULES constants"),
 "C05": ("stack-operation-mixins-match-helpers-on-state", "_StackOperation / _Keyword / _MatchTop bases with class-level flags, matching loops as ParserState.match_top / match_entries, merged emitters, STACK_KEYWORDS table"),
 "C06": ("pair-events-generator-marks", "Pair._events() non-recursive walk behind tokens() / flatten(), dumps() as match, find_first_tagged through next(), Stream.next through peek, _marks"),
 "C07": ("snapshot-objects-marks-for-else", "Stack keeps mutable _Snapshot objects (size, floor) in `lengths`, _marks, parse_trivia as for/else"),
 "C08": ("snapshot-namedtuple-history-int-factories", "Snapshot(size, low) NamedTuple with _replace, _history of Checkpoint, _attempt(), SnapshottingInt operators by factories"),
 "C09": ("int-helpers-renamed-fields-marks", "SnapshottingInt private fields renamed, operators through _update / _map / _compare over the operator module, _marks of _Mark, _attempt()"),
 "C10": ("infix-operator-table-parser-helpers-unescape-table", "InfixOperator table with node classes (isinstance against operator.node), table-driven parse_expression, parse_repeat_expression with early returns, unescape by find and a dict"),
 "C11": ("scanner-one-trivia-pattern-expect-tables", "RE_TRIVIA, RE_STRING_BODY, expect(), operator / keyword tables, five helpers split out; unescape tables"),
 "C12": ("unescape-table-accept-quoted-pattern-terminal", "SIMPLE_ESCAPES table, accept_quoted(kind), parse_range_expression, PatternTerminal base shared by CIString and Range (class-level _flags tuple, getattr(re, name))"),
 "C13": ("locate-line-summarize-join-helpers", "pairs.locate_line() shared by Position and error_context (accumulate + bisect), table-driven _summarize(), join_with_limit helpers"),
 "C14": ("one-line-scanner-for-three-copies", "LineRecord / scan_lines / locate_line / trailing_line / line_at in pairs.py replace three hand-written offset-to-line loops (pairs, exceptions, grammar exceptions)"),
 "C15": ("optimizer-run-dataclass-step-methods", "_Run(rules, has_trivia, log) dataclass per optimize() call, OptimizerStep.enabled_for / applies_to / traverse, _with_expression, _combined_skip_rule, flattened skip, match-based squash"),
 "C16": ("marks-furthest-failure-class-describe", "_marks, FurthestFailure class with record() (furthest_* as read-only properties), _attempt() loop, _describe()"),
 "C17": ("alternatives-class-merge-ranges-collectors-table", "_Alternatives class with _either_case, _merge_ranges / _char_class, module-level _rank / _overlaps with combinations, REPEAT class attribute, _COLLECTORS table"),
 "C18": ("operator-record-fixity-enum-dispatch-tables", "_Operator(fixity, prec, right_assoc) record with a _Fixity enum built per lookup, _parse_operand / _parse_operators, calculator hooks as dispatch tables, Pair.stream() builds its Stream directly"),
}
out = Path('/tmp/r7out')
FINAL='eval6.json'
for c,(slug,needs) in X.items():
    d = out/c/'x'
    first = json.loads((d/'eval.json').read_text()) if (d/'eval.json').exists() else {}
    ev = json.loads((d/FINAL).read_text()); ev['confirm']=json.loads((d/'confirm.json').read_text())
    (d/'eval.json.first').write_text(json.dumps(first, indent=1))
    (d/'eval.json').write_text(json.dumps(ev, indent=1))
    sid=f"R7-{c}-x-{slug}"
    subprocess.run(['/venv/bin/python','/verif/tools/keep_seed.py',str(d),sid,c,needs],check=True,capture_output=True)
    mf=Path('/verif/seeded')/sid/'meta.json'; m=json.loads(mf.read_text())
    m['round']=7
    m['source']="independent sub-agent given only the property text and a scratch worktree of /repo; asked for a large, realistic restructuring with exactly one behavioural slip hidden in it (and, separately, a pure refactoring)"
    m['first_pass']={'caught_by': first.get('fired'), 'undecided': first.get('analysis_error')}
    m['what_was_run']=["scratch worktree of /repo HEAD: demo.py exits 0 on the clean tree; git apply patch.diff; full suite still '678 passed, 1 error'; demo.py exits non-zero with the patch (tools/seed_eval.py --confirm)", "every check's quick command on a scratch copy of /repo with the patch applied (tools/eval_many.py; SA_REPO=<copy>)"]
    mf.write_text(json.dumps(m,indent=1)+"\n")
    print(sid, 'caught', m['caught_by'], 'undecided', m['analysis_error_in'])
for c,(slug,what) in R.items():
    d = out/c/'r'
    first = json.loads((d/'eval.json').read_text()) if (d/'eval.json').exists() else {}
    ev = json.loads((d/FINAL).read_text())
    (d/'evalH.json').write_text(json.dumps(ev, indent=1))
    if not (d/'confirmH.json').exists(): shutil.copy(d/'confirm.json', d/'confirmH.json')
    rid=f"R7-{c}-r-{slug}"
    subprocess.run(['/venv/bin/python','/verif/tools/keep_refactor.py',str(d),rid,c,what],check=True,capture_output=True)
    mf=Path('/verif/refactors')/rid/'meta.json'; m=json.loads(mf.read_text())
    m['round']=7
    m['first_pass']={'false_alarm': first.get('fired'), 'undecided': first.get('analysis_error')}
    mf.write_text(json.dumps(m,indent=1)+"\n")
    print(rid, 'silent', len(m.get('silent',[])), 'undecided', sorted(m.get('undecided',{})), 'false', sorted(m.get('false_alarm',{})))
